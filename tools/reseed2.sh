#!/bin/bash
# reseed2.sh <prop> <seed-dir-name>: re-run a filed seeded change against the committed check in a scratch worktree
# (GOVC_REPO / GOVC_VERIF: /repo and /verif/evidence are not touched) and update its meta.json.
set -u
prop=$1; seed=$2; d=/verif/seeded/$seed
export GOFLAGS=-mod=mod GOPROXY=off GOSUMDB=off GOTOOLCHAIN=local
wt=/tmp/reseedwt_$seed; vt=/tmp/reseedvt_$seed
git -C /repo worktree add -q --detach $wt HEAD || exit 2
(cd $wt && git apply $d/patch.diff) || { git -C /repo worktree remove --force $wt; exit 2; }
mkdir -p $vt && rsync -a --exclude govc --exclude .git --exclude bin --exclude seeded /verif/ $vt/
(cd $vt && GOVC_REPO=$wt GOVC_VERIF=$vt /verif/bin/govc check $prop --tier quick > $d/check_patched.log 2>&1); chk=$?
sed -i "s#$vt#/verif#g; s#$wt#/repo#g" $d/check_patched.log
git -C /repo worktree remove --force $wt; rm -rf $vt
python3 - <<PY
import json,re
d='$d'; log=open(d+'/check_patched.log').read()
m=json.load(open(d+'/meta.json')); was=m.get('caught')
obl=sorted(set(re.findall(r'obligation=(\S+)',log)))
m.update({"check_exit":$chk,"violations":len(re.findall(r'^VIOLATION',log,re.M)),"failed_obligations":obl,
 "replay_confirmed":'replay on the real code CONFIRMED' in log,"caught":$chk==1 and bool(obl)})
if was is False and m['caught']:
    m['history']="missed when first filed; caught after the contracts were strengthened (see DESIGN.md 0.4)"
json.dump(m,open(d+'/meta.json','w'),indent=1)
print('$seed','caught' if m['caught'] else 'MISSED',obl[:3])
PY
