#!/bin/bash
# seedcheck2.sh <prop> <seed-id> <srcdir> <pkgdir> <testrun-regexp> [ldflags]
# Like seedcheck.sh, but /repo and /verif/evidence are never touched: the demonstration, the package tests AND the
# property check all run against one scratch worktree of /repo's HEAD with the patch applied (govc reads it through
# GOVC_REPO, and writes its evidence/replay files into a scratch copy of /verif through GOVC_VERIF), so several
# seeds can be checked at the same time and while /repo is being edited. The check is the committed quick check
# (same binary, same contracts as /repo's HEAD); `git -C /repo apply patch.diff && /verif/run <prop> quick` gives
# the same verdict.
set -u
prop=$1; id=$2; src=$3; pkg=$4; run=$5; ld=${6:--checklinkname=0}
export GOFLAGS=-mod=mod GOPROXY=off GOSUMDB=off GOTOOLCHAIN=local
out=/verif/seeded/$id; mkdir -p $out
cp $src/patch.diff $out/patch.diff; cp $src/demo_test.go $out/demo_test.go; cp $src/notes.txt $out/notes.txt 2>/dev/null
wt=/tmp/seedwt_$id; vt=/tmp/seedvt_$id
git -C /repo worktree add -q --detach $wt HEAD || exit 2
cp $out/demo_test.go $wt/$pkg/zz_seed_demo_test.go
(cd $wt && go test -vet=off -count=1 -timeout 600s -ldflags=$ld -run "$run" ./$pkg > $out/demo_clean.log 2>&1); clean=$?
rm $wt/$pkg/zz_seed_demo_test.go
(cd $wt && git apply $out/patch.diff) || { echo "patch does not apply"; git -C /repo worktree remove --force $wt; exit 2; }
(cd $wt && go build ./internal/... ./pkg/... > $out/build.log 2>&1); build=$?
cp $out/demo_test.go $wt/$pkg/zz_seed_demo_test.go
(cd $wt && go test -vet=off -count=1 -timeout 600s -ldflags=$ld -run "$run" ./$pkg > $out/demo_patched.log 2>&1); patched=$?
rm $wt/$pkg/zz_seed_demo_test.go
(cd $wt && go test -vet=off -count=1 -timeout 900s -ldflags=$ld ./$pkg > $out/pkgtests_patched.log 2>&1); pkgtests=$?
mkdir -p $vt && rsync -a --exclude govc --exclude .git --exclude bin --exclude seeded /verif/ $vt/
(cd $vt && GOVC_REPO=$wt GOVC_VERIF=$vt /verif/bin/govc check $prop --tier quick > $out/check_patched.log 2>&1); chk=$?
sed -i "s#$vt#/verif#g; s#$wt#/repo#g" $out/check_patched.log
git -C /repo worktree remove --force $wt; rm -rf $vt
viol=$(grep -c '^VIOLATION' $out/check_patched.log)
python3 - <<PY
import json,re
log=open('$out/check_patched.log').read()
obl=sorted(set(re.findall(r'obligation=(\S+)',log)))
confirmed=[l for l in log.split('\n') if 'replay on the real code CONFIRMED' in l]
json.dump({"property":"$prop","seed":"$id","origin":"written by a fresh sub-agent given only the property text and a scratch worktree",
 "demo_passes_on_unchanged_code":$clean==0,"demo_fails_with_patch":$patched!=0,"builds_with_patch":$build==0,"package_tests_pass_with_patch":$pkgtests==0,
 "demo_command":"go test -vet=off -count=1 -ldflags=$ld -run '$run' ./$pkg  (demo_test.go copied into $pkg)",
 "check_command":"git -C /repo apply patch.diff && /verif/run $prop quick ; git -C /repo checkout -- .   (run here against a scratch worktree with the patch applied, GOVC_REPO)",
 "check_exit":$chk,"violations":$viol,"failed_obligations":obl,"replay_confirmed":len(confirmed)>0,"caught":$chk==1 and $viol>0},open('$out/meta.json','w'),indent=1)
print("$id", "caught" if ($chk==1 and $viol>0) else "MISSED", obl[:3])
PY
