#!/usr/bin/env python3
"""Draft `access` classes for the dispatchable methods listed by `govc surface` (heuristic; reviewed by hand,
then checked by the engine: a wrong class fails its obligations)."""
import re,sys,collections
rows=[l.rstrip('\n').split('\t') for l in open('/tmp/surface.tsv')]
src={}
def body(path,line):
    if path not in src: src[path]=open(path).read().split('\n')
    ls=src[path]; i=line-1; depth=0; out=[]; started=False
    while i<len(ls):
        out.append(ls[i]); depth+=ls[i].count('{')-ls[i].count('}')
        if '{' in ls[i]: started=True
        if started and depth==0: break
        i+=1
    return '\n'.join(out)
EFFECT=re.compile(r'\.(Set|Add|Delete|SetObject|AddObject|PostEvent|PostInterchainEvent|CrossInvokeEVM|GetAccount)\(')
recv={}
out=collections.OrderedDict()
for T,M,prom,loc,params,acc in rows:
    path,line=loc.rsplit(':',1); b=body(path,int(line))
    m=re.match(r'func \((\w+) \*',b); r=m.group(1) if m else 'x'
    names=[p.strip().split(' ')[0] for p in params.strip('()').split(',') if p.strip()]
    cls=None
    if 'checkCurrentCaller()' in b: cls='internal InterchainContractAddr'
    elif 'checkPermission(' in b:
        perms=set()
        for mm in re.finditer(r'checkPermission\((\[\]string\{[^}]*\}|\w+)',b):
            a=mm.group(1)
            if a.startswith('[]string'):
                for p in re.findall(r'Permission(Self|Admin|Specific)',a): perms.add(p.lower())
            else:
                for p in re.findall(r'Permission(Self|Admin|Specific)',b): perms.add(p.lower())
        cls='guarded '+' '.join(sorted(perms))
    else:
        cls='public-read'
    out.setdefault(T,[]).append((M,r,names,cls))
for T,ms in out.items():
    print('// --- %s'%T)
    for M,r,names,cls in ms:
        print('//@ func contracts.(*%s).%s(%s)'%(T,M,', '.join(names)))
        if cls!='public':
            print('//@   requires %s.Stub != nil'%r)
            print('//@   modifies *')
        print('//@   access %s'%cls)
    print()
