#!/bin/bash
# mkseedwt.sh <name>: scratch worktree of /repo HEAD for a seed-writing sub-agent, with the contract files
# (comment-only, tag-guarded verif_contracts.go) removed and hidden from git so the agent sees nothing of /verif's work.
set -eu
wt=/tmp/seedwork/$1/repo
mkdir -p /tmp/seedwork/$1/out
git -C /repo worktree add -q --detach $wt HEAD
cd $wt
for f in $(git ls-files | grep 'verif_contracts.go$'); do git update-index --skip-worktree $f; rm -f $f; done
echo $wt
