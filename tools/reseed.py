#!/usr/bin/env python3
"""reseed.py <prop> <seed-dir-name>: re-run a filed seeded change against the current check and update its meta.json."""
import json,re,subprocess,sys,os
prop,seed=sys.argv[1],sys.argv[2]
d='/verif/seeded/'+seed
if subprocess.run(['git','-C','/repo','status','--porcelain'],capture_output=True,text=True).stdout.strip():
    sys.exit('refusing: /repo has uncommitted changes')
subprocess.check_call(['git','-C','/repo','apply',d+'/patch.diff'])
try:
    r=subprocess.run(['/verif/run',prop,'quick'],capture_output=True,text=True)
finally:
    subprocess.check_call(['git','-C','/repo','checkout','--','.'])
log=r.stdout+r.stderr
open(d+'/check_patched.log','w').write(log)
m=json.load(open(d+'/meta.json'))
was=m.get('caught')
obl=sorted(set(re.findall(r'obligation=(\S+)',log)))
m.update({"check_exit":r.returncode,"violations":len(re.findall(r'^VIOLATION',log,re.M)),"failed_obligations":obl,
 "replay_confirmed":'replay on the real code CONFIRMED' in log,"caught":r.returncode==1 and bool(obl)})
if was is False and m['caught']:
    m['history']="missed when first filed; caught after the contracts were strengthened (see DESIGN.md 0.4)"
json.dump(m,open(d+'/meta.json','w'),indent=1)
print(seed,'caught' if m['caught'] else 'MISSED',obl[:3])
# restore the evidence of the unchanged tree
subprocess.run(['/verif/run',prop,'quick'],capture_output=True)
