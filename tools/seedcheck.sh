#!/bin/bash
# seedcheck.sh <prop> <seed-id> <srcdir> <pkgdir> <testrun-regexp> [ldflags]
# 1. confirms in a scratch worktree that the demonstration passes on the unchanged code and fails with the patch,
# 2. applies the patch to /repo, runs the property's quick check, undoes the patch,
# 3. files everything under /verif/seeded/<seed-id>/ (patch.diff, demo_test.go, notes.txt, meta.json).
set -u
prop=$1; id=$2; src=$3; pkg=$4; run=$5; ld=${6:--checklinkname=0}
export GOFLAGS=-mod=mod GOPROXY=off GOSUMDB=off GOTOOLCHAIN=local
if [ -n "$(git -C /repo status --porcelain)" ]; then echo "refusing: /repo has uncommitted changes (commit hook edits first)"; exit 2; fi
out=/verif/seeded/$id; mkdir -p $out
cp $src/patch.diff $out/patch.diff; cp $src/demo_test.go $out/demo_test.go; cp $src/notes.txt $out/notes.txt 2>/dev/null
wt=/tmp/seedwt_$id
git -C /repo worktree add -q --detach $wt HEAD || exit 2
cp $out/demo_test.go $wt/$pkg/zz_seed_demo_test.go
(cd $wt && go test -vet=off -count=1 -ldflags=$ld -run "$run" ./$pkg > $out/demo_clean.log 2>&1); clean=$?
(cd $wt && git apply $out/patch.diff) || { echo "patch does not apply"; git -C /repo worktree remove --force $wt; exit 2; }
(cd $wt && go build ./internal/... ./pkg/... > $out/build.log 2>&1); build=$?
(cd $wt && go test -vet=off -count=1 -ldflags=$ld -run "$run" ./$pkg > $out/demo_patched.log 2>&1); patched=$?
rm $wt/$pkg/zz_seed_demo_test.go
(cd $wt && go test -vet=off -count=1 -ldflags=$ld ./$pkg > $out/pkgtests_patched.log 2>&1); pkgtests=$?
git -C /repo worktree remove --force $wt
# run the check on /repo with the patch applied
git -C /repo apply $out/patch.diff || { echo "patch does not apply to /repo"; exit 2; }
(cd /verif && ./run $prop quick > $out/check_patched.log 2>&1); chk=$?
git -C /repo checkout -- .
cp /verif/evidence/$prop.json /tmp/ev_$prop.json 2>/dev/null
viol=$(grep -c '^VIOLATION' $out/check_patched.log)
python3 - <<PY
import json,re
log=open('$out/check_patched.log').read()
obl=sorted(set(re.findall(r'obligation=(\S+)',log)))
confirmed=[l for l in log.split('\n') if 'replay on the real code CONFIRMED' in l]
json.dump({"property":"$prop","seed":"$id","origin":"written by a fresh sub-agent given only the property text and a scratch worktree",
 "demo_passes_on_unchanged_code":$clean==0,"demo_fails_with_patch":$patched!=0,"builds_with_patch":$build==0,"package_tests_pass_with_patch":$pkgtests==0,
 "demo_command":"go test -vet=off -count=1 -ldflags=$ld -run '$run' ./$pkg  (demo_test.go copied into $pkg)",
 "check_command":"git -C /repo apply patch.diff && /verif/run $prop quick ; git -C /repo checkout -- .",
 "check_exit":$chk,"violations":$viol,"failed_obligations":obl,"replay_confirmed":len(confirmed)>0,"caught":$chk==1 and $viol>0},open('$out/meta.json','w'),indent=1)
print(open('$out/meta.json').read())
PY
# restore evidence of the unchanged tree
(cd /verif && ./run $prop quick > /dev/null 2>&1)
