#!/usr/bin/env python3
"""mkmutant.py <prop> <name> <repo-relative-file> <expect> <why> <<< 'OLD\n====\nNEW'
Writes /verif/selftest/<prop>/<name>.diff : a unified diff of /repo/<file> with OLD replaced by NEW (exactly once)."""
import sys, os, difflib
prop, name, rel, expect, why = sys.argv[1:6]
spec = sys.stdin.read()
old, new = spec.split('\n====\n')
old = old.rstrip('\n'); new = new.rstrip('\n')
src = open('/repo/' + rel).read()
if src.count(old) != 1:
    sys.exit('pattern occurs %d times in %s' % (src.count(old), rel))
dst = src.replace(old, new)
d = ''.join(difflib.unified_diff(src.splitlines(True), dst.splitlines(True), 'a/' + rel, 'b/' + rel))
os.makedirs('/verif/selftest/' + prop, exist_ok=True)
with open('/verif/selftest/%s/%s.diff' % (prop, name), 'w') as f:
    for e in expect.split('|'):
        f.write('# expect: %s\n' % e)
    f.write('# why: %s\n' % why)
    f.write(d)
print('wrote', name)
