#!/usr/bin/env python3
"""Regenerates /verif/MANIFEST.json from tools/claims.json (claimed properties) and properties.jsonl."""
import json, subprocess
props=[json.loads(l)['id'] for l in open('/verif/properties.jsonl')]
claims=json.load(open('/verif/tools/claims.json'))
hooks=subprocess.run(['git','-C','/repo','log','--format=%H %s'],capture_output=True,text=True).stdout.splitlines()
hook_commits=[l.split()[0] for l in hooks if ' verif hook' in l]
m={"version":1,
 "setup_cmd":"cd /verif/govc && GOFLAGS=-mod=vendor GOPROXY=off GOSUMDB=off GOTOOLCHAIN=local go build -o /verif/bin/govc .",
 "hooks":{"guard":"verif",
   "enable":"govc loads /repo with go/packages BuildFlags -tags=verif so that the comment-only verif_contracts.go files (//@ contract blocks) are part of the package; they contain no code, so there is nothing to build differently",
   "baseline_off_cmd":"cd /repo && go test -mod=mod -json -vet=off -count=1 -timeout 25m ./...",
   "source_commits":hook_commits,"add_only":True},
 "engines":[{"name":"govc","path":"/verif/govc","serves_properties":sorted(claims.keys()),
   "kind_free_text":"contract-based deductive verifier for Go written for this task: weakest-precondition style VC generation by forward symbolic execution of go/ssa (NaiveForm) of the real functions under //@ contracts (requires/ensures/modifies/loop invariants, callee contracts at call sites), obligations discharged by z3 4.8.12 / z3-new 5.1.0 / cvc5 1.0.3; counterexamples replayed on the real package with go test -overlay"}],
 "checks":[], "not_applicable":[],
 "notes":"Every check is `/verif/run <id> <tier>`; thorough additionally runs the must-fail mutant corpus /verif/selftest/<id> (go/packages overlays, /repo untouched) with 60 s solver timeouts. Known findings: /verif/known_findings.json."}
for p in props:
    if p in claims:
        c=claims[p]
        m["checks"].append({"property_id":p,"quick_cmd":"/verif/run %s quick"%p,"thorough_cmd":"/verif/run %s thorough"%p,
          "evidence_file":"/verif/evidence/%s.json"%p,"engine":"govc",
          "level_claimed":{"category":"proof","text":c["text"],"design_ref":c.get("design_ref","DESIGN.md section 7 "+p)},
          "level_note":c["note"],"technique":c.get("technique","contract-based deductive verification: VCs generated from go/ssa of the real functions under //@ contracts, discharged by z3/cvc5")})
    else:
        reason=json.load(open('/verif/tools/not_applicable.json')).get(p,"not built yet (DESIGN.md section 9 build order)")
        m["not_applicable"].append({"property_id":p,"reason":reason})
json.dump(m,open('/verif/MANIFEST.json','w'),indent=1)
print(len(m["checks"]),"claimed;",len(m["not_applicable"]),"not applicable")
