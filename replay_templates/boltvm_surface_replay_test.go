package boltvm

// Replay harness used by /verif/govc (injected with `go test -overlay`, never written into the
// repository): an ordinary account invokes a method that the contract merely inherits from the
// embedded boltvm.Stub. The violation is reproduced when the ledger write happens.

import (
	"encoding/json"
	"fmt"
	"io/ioutil"
	"os"
	"testing"

	"github.com/golang/mock/gomock"
	"github.com/meshplus/bitxhub-core/validator/mock_validator"
	"github.com/meshplus/bitxhub-kit/log"
	"github.com/meshplus/bitxhub-kit/types"
	"github.com/meshplus/bitxhub-model/constant"
	"github.com/meshplus/bitxhub-model/pb"
	"github.com/meshplus/bitxhub/internal/ledger"
	"github.com/meshplus/bitxhub/internal/ledger/mock_ledger"
	"github.com/meshplus/bitxhub/pkg/vm"
)

func TestGovcReplaySurface(t *testing.T) {
	method := "Add"
	if raw, err := ioutil.ReadFile(os.Getenv("GOVC_REPLAY_INPUT")); err == nil {
		var in struct {
			Values map[string]string `json:"values"`
		}
		if json.Unmarshal(raw, &in) == nil && in.Values["method"] != "" {
			method = in.Values["method"]
		}
	}
	ctr := gomock.NewController(t)
	mockEngine := mock_validator.NewMockEngine(ctr)
	chainLedger := mock_ledger.NewMockChainLedger(ctr)
	stateLedger := mock_ledger.NewMockStateLedger(ctr)
	wrote := false
	stateLedger.EXPECT().AddState(gomock.Any(), gomock.Any(), gomock.Any()).Do(func(_, _, _ interface{}) { wrote = true }).AnyTimes()
	stateLedger.EXPECT().SetState(gomock.Any(), gomock.Any(), gomock.Any(), gomock.Any()).Do(func(_, _, _, _ interface{}) { wrote = true }).AnyTimes()
	stateLedger.EXPECT().AddEvent(gomock.Any()).Do(func(_ interface{}) { wrote = true }).AnyTimes()
	mockLedger := &ledger.Ledger{ChainLedger: chainLedger, StateLedger: stateLedger}
	tx := &pb.BxhTransaction{From: types.NewAddressByStr(from), To: constant.StoreContractAddr.Address()}
	tx.TransactionHash = tx.Hash()
	ctx := vm.NewContext(tx, 1, nil, 100, mockLedger, log.NewWithModule("vm"), false, nil)
	bvm := New(ctx, mockEngine, nil, GetBoltContracts())
	var args []*pb.Arg
	switch method {
	case "Add", "Set":
		args = []*pb.Arg{pb.String("victim-key"), pb.Bytes([]byte("attacker-value"))}
	case "PostInterchainEvent":
		args = []*pb.Arg{pb.String("boom")}
	case "Delete":
		args = []*pb.Arg{pb.String("victim-key")}
	}
	payload := &pb.InvokePayload{Method: method, Args: args}
	input, _ := payload.Marshal()
	_, _, err := bvm.Run(input, 0)
	fmt.Printf("replay: outsider invoked %s on the store contract: err=%v ledgerWritten=%v\n", method, err, wrote)
	if wrote {
		fmt.Println("REPLAY-CONFIRMED the promoted Stub method ran and wrote to the ledger (receipt FAILED, effect kept for unjournaled writes)")
	} else {
		fmt.Println("REPLAY-NOT-CONFIRMED the call was refused before running")
	}
}
