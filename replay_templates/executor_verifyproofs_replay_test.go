package executor

// Replay harness used by /verif/govc (injected with `go test -overlay`, never written into the
// repository). verifyProofs runs the proof checker in goroutines outside any recover(): a panic there
// kills the process, so the scenario runs in a child process (this test binary re-executed) and the
// parent reports what happened to it.

import (
	"fmt"
	"os"
	"os/exec"
	"strings"
	"testing"

	"github.com/meshplus/bitxhub-core/agency"
	"github.com/meshplus/bitxhub-core/validator"
	"github.com/meshplus/bitxhub-kit/log"
	"github.com/meshplus/bitxhub-kit/types"
	"github.com/meshplus/bitxhub-model/pb"
	"github.com/meshplus/bitxhub/internal/repo"
)

// govcRejectingVerify answers like proof.VerifyPool.CheckProof does when a validation rule returns
// plain "false": not ok, no error value.
type govcRejectingVerify struct{}

func (govcRejectingVerify) CheckProof(tx pb.Transaction) (bool, uint64, error) { return false, 0, nil }
func (govcRejectingVerify) ValidationEngine() validator.Engine                 { return nil }
func (govcRejectingVerify) GetProof(txHash types.Hash) ([]byte, bool)          { return nil, false }
func (govcRejectingVerify) DeleteProof(txHash types.Hash)                      {}

func TestGovcReplayVerifyProofsChild(t *testing.T) {
	if os.Getenv("GOVC_REPLAY_CHILD") != "1" {
		t.Skip("child process of TestGovcReplayVerifyProofs only")
	}
	ex := &BlockExecutor{ibtpVerify: govcRejectingVerify{}, logger: log.NewWithModule("replay")}
	ex.config = repo.Config{}
	ex.config.Executor.ProofType = "serial"
	bw := &BlockWrapper{
		block: &pb.Block{
			BlockHeader:  &pb.BlockHeader{Number: 2},
			Transactions: &pb.Transactions{Transactions: []pb.Transaction{&pb.BxhTransaction{}}},
		},
		invalidTx: map[int]agency.InvalidReason{},
	}
	ex.verifyProofs(bw)
	fmt.Printf("CHILD-SURVIVED invalidTx=%v\n", bw.invalidTx)
}

func TestGovcReplayVerifyProofs(t *testing.T) {
	if os.Getenv("GOVC_REPLAY_INPUT") == "" {
		t.Skip("no replay input")
	}
	cmd := exec.Command(os.Args[0], "-test.run", "^TestGovcReplayVerifyProofsChild$", "-test.v")
	cmd.Env = append(os.Environ(), "GOVC_REPLAY_CHILD=1")
	out, err := cmd.CombinedOutput()
	s := string(out)
	if len(s) > 3000 {
		s = s[:3000]
	}
	fmt.Printf("replay: child process (one IBTP-less transaction, proof checker answers (false, 0, nil)) ended with err=%v, output:\n%s\n", err, s)
	if err != nil && strings.Contains(s, "nil pointer dereference") && !strings.Contains(s, "CHILD-SURVIVED") {
		fmt.Println("REPLAY-CONFIRMED verifyProofs crashed the process (nil error dereferenced in the verification goroutine)")
		return
	}
	fmt.Println("REPLAY-NOT-CONFIRMED the process survived a proof rejected without an error value")
}
