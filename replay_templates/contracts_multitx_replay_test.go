package contracts

// Replay harness used by /verif/govc (injected with `go test -overlay`, never written into the repository):
// the per-block notification map of one-to-many transactions, on the real contract over the in-memory stub
// of contracts_tm_replay_test.go (JSON objects in a map).

import (
	"encoding/json"
	"fmt"
	"os"
	"testing"
)

func TestGovcReplayMultiTxNotifyMap(t *testing.T) {
	if os.Getenv("GOVC_REPLAY_INPUT") == "" {
		t.Skip("no replay input")
	}
	stub := newGovcFakeStub()
	x := &InterchainManager{}
	x.Stub = stub
	// a one-to-many transaction of source 1356:chain0:svc0 with two children, on two different destination chains
	children := []string{"1356:chain0:svc0-1356:chain1:svc1-1", "1356:chain0:svc0-1356:chain2:svc2-1"}
	x.addToMultiTxNotifyMap(7, children, false)
	var m map[string][]string
	_ = json.Unmarshal(stub.store[MultiTxNotifyKey(7)], &m)
	fmt.Printf("replay: notification map of height 7 for the destination side: %v\n", m)
	found := false
	for _, id := range m["chain2"] {
		if id == children[1] {
			found = true
		}
	}
	if !found {
		fmt.Println("REPLAY-CONFIRMED the child addressed to chain2 is not filed under chain2 (it is filed under the first child's destination chain)")
		return
	}
	fmt.Println("REPLAY-NOT-CONFIRMED every child is filed under its own destination chain")
}
