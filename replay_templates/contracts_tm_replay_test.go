package contracts

// Replay harness used by /verif/govc (injected with `go test -overlay`, never written into the
// repository): realises solver counterexamples for transaction-manager methods on the real code,
// with a map-backed implementation of boltvm.Stub.

import (
	"encoding/json"
	"fmt"
	"io/ioutil"
	"os"
	"strconv"
	"testing"

	"github.com/meshplus/bitxhub-core/boltvm"
	"github.com/meshplus/bitxhub-core/governance"
	"github.com/meshplus/bitxhub-core/validator"
	"github.com/meshplus/bitxhub-kit/log"
	"github.com/meshplus/bitxhub-kit/types"
	"github.com/meshplus/bitxhub-model/constant"
	"github.com/meshplus/bitxhub-model/pb"
	"github.com/meshplus/bitxhub/internal/repo"
	"github.com/sirupsen/logrus"
)

type govcFakeStub struct {
	admins        []*Role // governance admins answered by the fake role contract (nil: every account is refused)
	store         map[string][]byte
	caller        string
	currentCaller string
	effects       int
	height        uint64
}

func newGovcFakeStub() *govcFakeStub {
	return &govcFakeStub{store: map[string][]byte{}, height: 10}
}
func (s *govcFakeStub) Caller() string             { return s.caller }
func (s *govcFakeStub) Callee() string             { return "" }
func (s *govcFakeStub) CurrentCaller() string      { return s.currentCaller }
func (s *govcFakeStub) Logger() logrus.FieldLogger { return log.NewWithModule("replay") }
func (s *govcFakeStub) GetTxHash() *types.Hash     { return types.NewHashByStr("0x" + "11") }
func (s *govcFakeStub) GetTxTimeStamp() int64      { return 0 }
func (s *govcFakeStub) GetTxIndex() uint64         { return 0 }
func (s *govcFakeStub) GetCurrentHeight() uint64   { return s.height }
func (s *govcFakeStub) Has(key string) bool        { _, ok := s.store[key]; return ok }
func (s *govcFakeStub) Get(key string) (bool, []byte) {
	v, ok := s.store[key]
	return ok, v
}
func (s *govcFakeStub) GetObject(key string, ret interface{}) bool {
	v, ok := s.store[key]
	if !ok {
		return false
	}
	return json.Unmarshal(v, ret) == nil
}
func (s *govcFakeStub) Set(key string, value []byte) { s.effects++; s.store[key] = value }
func (s *govcFakeStub) SetObject(key string, value interface{}) {
	s.effects++
	b, _ := json.Marshal(value)
	s.store[key] = b
}
func (s *govcFakeStub) Add(key string, value []byte) { s.effects++; s.store[key] = value }
func (s *govcFakeStub) AddObject(key string, value interface{}) {
	s.effects++
	b, _ := json.Marshal(value)
	s.store[key] = b
}
func (s *govcFakeStub) Delete(key string)                     { s.effects++; delete(s.store, key) }
func (s *govcFakeStub) Query(prefix string) (bool, [][]byte) { return false, nil }
func (s *govcFakeStub) PostEvent(pb.Event_EventType, interface{}) {
	s.effects++
}
func (s *govcFakeStub) PostInterchainEvent(interface{})     { s.effects++ }
func (s *govcFakeStub) ValidationEngine() validator.Engine { return nil }
func (s *govcFakeStub) CrossInvoke(address, method string, args ...*pb.Arg) *boltvm.Response {
	if s.admins != nil {
		switch method {
		case "IsAnyAvailableAdmin", "IsAnyAdmin":
			for _, a := range s.admins {
				if len(args) > 0 && a.ID == string(args[0].Value) {
					return boltvm.Success([]byte("true"))
				}
			}
			return boltvm.Success([]byte("false"))
		case "GetRolesByType":
			b, _ := json.Marshal(s.admins)
			return boltvm.Success(b)
		case "GetProposalStrategy":
			return boltvm.Error("", "no strategy")
		}
	}
	switch method {
	case "IsAnyAvailableAdmin", "IsAnyAdmin":
		return boltvm.Success([]byte("false"))
	}
	s.effects++
	return boltvm.Success(nil)
}
func (s *govcFakeStub) CrossInvokeEVM(address string, input []byte) *boltvm.Response {
	s.effects++
	return boltvm.Success(nil)
}
func (s *govcFakeStub) GetAccount(address string) interface{} { s.effects++; return nil }
func (s *govcFakeStub) EnableAudit() bool                      { return false }

type govcIn struct {
	Clause  string              `json:"clause"`
	Values  map[string]string   `json:"values"`
	Domains map[string][]string `json:"domains"`
}

func govcReadInput(t *testing.T) govcIn {
	var in govcIn
	raw, err := ioutil.ReadFile(os.Getenv("GOVC_REPLAY_INPUT"))
	if err != nil {
		t.Skip("no replay input")
	}
	if err := json.Unmarshal(raw, &in); err != nil {
		t.Fatal(err)
	}
	return in
}

func govcInt(s string) int {
	v, _ := strconv.Atoi(s)
	return v
}

func govcNoticeStep(a, b, s int) bool {
	return (s == 1 && a == 0 && b == 4) || (s == 2 && a == 0 && b == 5)
}

// govcCandidates: the solver's candidate first, then the cartesian product of the declared small domains.
func govcCandidates(in govcIn) []map[string]string {
	out := []map[string]string{in.Values}
	keys := []string{}
	for k := range in.Domains {
		keys = append(keys, k)
	}
	var rec func(i int, cur map[string]string)
	rec = func(i int, cur map[string]string) {
		if i == len(keys) {
			m := map[string]string{}
			for k, v := range in.Values {
				m[k] = v
			}
			for k, v := range cur {
				m[k] = v
			}
			out = append(out, m)
			return
		}
		for _, v := range in.Domains[keys[i]] {
			cur[keys[i]] = v
			rec(i+1, cur)
		}
	}
	if len(keys) > 0 {
		rec(0, map[string]string{})
	}
	return out
}

func TestGovcReplayBeginInterBitXHub(t *testing.T) {
	in := govcReadInput(t)
	for _, vals := range govcCandidates(in) {
		stub := newGovcFakeStub()
		stub.currentCaller = constant.InterchainContractAddr.Address().String()
		tm := &TransactionManager{Stub: stub}
		oldHas := vals["oldHas"] == "true"
		oldStatus := govcInt(vals["oldStatus"])
		notice := govcInt(vals["noticeStatus"])
		if oldStatus < 0 || oldStatus > 5 {
			continue
		}
		if oldHas {
			rec := pb.TransactionRecord{Status: pb.TransactionStatus(oldStatus), Height: 100}
			b, _ := rec.Marshal()
			stub.store[TxInfoKey("tx1")] = b
		}
		proof, _ := (&pb.BxhProof{TxStatus: pb.TransactionStatus(notice)}).Marshal()
		res := tm.BeginInterBitXHub("tx1", 10, proof, vals["isFailed"] == "true")
		newHas := stub.Has(TxInfoKey("tx1"))
		newStatus := -1
		if newHas {
			rec := pb.TransactionRecord{}
			_, b := stub.Get(TxInfoKey("tx1"))
			_ = rec.Unmarshal(b)
			newStatus = int(rec.Status)
		}
		violated := false
		switch in.Clause {
		case "notice-step":
			violated = res.Ok && oldHas && !(newHas && govcNoticeStep(oldStatus, newStatus, notice))
		default:
			fmt.Println("REPLAY-NOT-CONFIRMED no Go oracle for clause", in.Clause)
			return
		}
		if violated {
			fmt.Printf("replay: stored=%v status=%d notice=%d -> ok=%v stored=%v status=%d\n", oldHas, oldStatus, notice, res.Ok, newHas, newStatus)
			fmt.Println("REPLAY-CONFIRMED clause", in.Clause, "is violated by the real function on this input")
			return
		}
	}
	fmt.Println("REPLAY-NOT-CONFIRMED clause", in.Clause, "holds on every candidate input tried")
}

// TestGovcReplayGroup: fixed call sequences for the one-to-many group logic (C05), run on the real transaction manager
// over the map-backed stub. The clause that failed selects what is looked at.
func TestGovcReplayGroup(t *testing.T) {
	in := govcReadInput(t)
	stub := newGovcFakeStub()
	stub.currentCaller = constant.InterchainContractAddr.Address().String()
	tm := &TransactionManager{Stub: stub}
	group := func() (TransactionInfo, bool) {
		var g TransactionInfo
		ok := stub.GetObject(GlobalTxInfoKey("g1"), &g)
		return g, ok
	}
	switch in.Values["scenario"] {
	case "partial-success-then-failure":
		// two declared children begin; the first reports SUCCESS: the group stays open and stays on the timeout list;
		// the second reports FAILURE: the group and every child fail
		tm.BeginMultiTXs("g1", "a", 10, false, 2)
		tm.BeginMultiTXs("g1", "b", 10, false, 2)
		_, listBefore := stub.Get(TimeoutKey(20))
		r1 := tm.Report("a", int32(pb.IBTP_RECEIPT_SUCCESS))
		g, _ := group()
		_, listAfter := stub.Get(TimeoutKey(20))
		fmt.Printf("replay: after the first SUCCESS receipt ok=%v group=%v children=%v timeout list %q -> %q\n", r1.Ok, g.GlobalState, g.ChildTxInfo, listBefore, listAfter)
		if g.GlobalState == pb.TransactionStatus_SUCCESS {
			fmt.Println("REPLAY-CONFIRMED the group is SUCCESS before every declared child succeeded")
			return
		}
		if g.GlobalState == pb.TransactionStatus_BEGIN && string(listAfter) != string(listBefore) {
			fmt.Println("REPLAY-CONFIRMED the group's timeout was unscheduled while the group is still open")
			return
		}
		r2 := tm.Report("b", int32(pb.IBTP_RECEIPT_FAILURE))
		g, _ = group()
		fmt.Printf("replay: after the FAILURE receipt ok=%v group=%v children=%v\n", r2.Ok, g.GlobalState, g.ChildTxInfo)
		if !r2.Ok || g.GlobalState != pb.TransactionStatus_BEGIN_FAILURE || g.ChildTxInfo["a"] != pb.TransactionStatus_BEGIN_FAILURE || g.ChildTxInfo["b"] != pb.TransactionStatus_FAILURE {
			fmt.Println("REPLAY-CONFIRMED a failed child does not fail the whole stored group")
			return
		}
		r3 := tm.Report("a", int32(pb.IBTP_RECEIPT_SUCCESS))
		g, _ = group()
		if g.GlobalState == pb.TransactionStatus_SUCCESS {
			fmt.Println("REPLAY-CONFIRMED a failed group became SUCCESS", r3.Ok)
			return
		}
	case "begin-failure-after-a-success":
		// child a begins and succeeds (count 3), child b begins, child c fails at begin: everything fails; a late child d joins failed
		tm.BeginMultiTXs("g1", "a", 10, false, 3)
		tm.BeginMultiTXs("g1", "b", 10, false, 3)
		tm.Report("a", int32(pb.IBTP_RECEIPT_SUCCESS))
		r := tm.BeginMultiTXs("g1", "c", 10, true, 3)
		g, _ := group()
		fmt.Printf("replay: after a child failed at begin ok=%v group=%v children=%v\n", r.Ok, g.GlobalState, g.ChildTxInfo)
		if !r.Ok || g.GlobalState != pb.TransactionStatus_BEGIN_FAILURE {
			fmt.Println("REPLAY-CONFIRMED a child failing at begin does not fail the stored group")
			return
		}
		for id, s := range g.ChildTxInfo {
			if s != pb.TransactionStatus_BEGIN_FAILURE {
				fmt.Println("REPLAY-CONFIRMED child", id, "keeps status", s, "after a sibling failed at begin")
				return
			}
		}
		r = tm.BeginMultiTXs("g1", "d", 10, false, 3)
		g, _ = group()
		if r.Ok && g.ChildTxInfo["d"] != pb.TransactionStatus_BEGIN_FAILURE {
			fmt.Println("REPLAY-CONFIRMED a child joining a failed group starts as", g.ChildTxInfo["d"])
			return
		}
	default:
		fmt.Println("REPLAY-NOT-CONFIRMED unknown scenario", in.Values["scenario"])
		return
	}
	fmt.Println("REPLAY-NOT-CONFIRMED the scenario behaves as specified")
}

// TestGovcReplayGovernance: fixed call sequences on the real governance contract over the map-backed stub with a fake
// role contract of four admins (one super admin).
func TestGovcReplayGovernance(t *testing.T) {
	in := govcReadInput(t)
	const (
		super = "0xc7F999b83Af6DF9e67d0a37Ee7e900bF38b3D013"
		a1    = "0x79a1215469FaB6f9c63c1816b45183AD3624bE34"
		a2    = "0x97c8B516D19edBf575D72a172Af7F418BE498C37"
		a3    = "0xc0Ff2e0b3189132D815b8eb325bE17285AC898f8"
		from  = "0x3f9d18f7c3a6e5e4c0b877fe3e688ab08840b997"
		objId = "appchainX"
	)
	stub := newGovcFakeStub()
	stub.admins = []*Role{
		{ID: super, RoleType: GovernanceAdmin, Weight: repo.SuperAdminWeight, Status: governance.GovernanceAvailable},
		{ID: a1, RoleType: GovernanceAdmin, Weight: repo.NormalAdminWeight, Status: governance.GovernanceAvailable},
		{ID: a2, RoleType: GovernanceAdmin, Weight: repo.NormalAdminWeight, Status: governance.GovernanceAvailable},
		{ID: a3, RoleType: GovernanceAdmin, Weight: repo.NormalAdminWeight, Status: governance.GovernanceAvailable},
	}
	g := &Governance{Stub: stub}
	status := func(id string) ProposalStatus {
		p := &Proposal{}
		stub.GetObject(ProposalKey(id), p)
		return p.Status
	}
	submit := func(event governance.EventType) string {
		stub.currentCaller = constant.AppchainMgrContractAddr.Address().String()
		res := g.SubmitProposal(from, string(event), string(AppchainMgr), objId, string(governance.GovernanceAvailable), "reason", nil)
		return string(res.Result)
	}
	vote := func(voter, id, ballot string) bool {
		stub.caller, stub.currentCaller = voter, voter
		return g.Vote(id, ballot, "reason").Ok
	}
	switch in.Values["scenario"] {
	case "locked-proposal-withdrawn-then-lock-released":
		// P1 (update) is locked by the higher-priority P2 (logout); its sponsor withdraws P1 (concluded: reject);
		// P2 is then rejected by the vote and releases its lock: P1 must stay as it was concluded
		p1 := submit(governance.EventUpdate)
		p2 := submit(governance.EventLogout)
		if status(p1) != PAUSED {
			fmt.Println("REPLAY-NOT-CONFIRMED the lower-priority proposal was not locked:", status(p1))
			return
		}
		stub.caller, stub.currentCaller = from, from
		w := g.WithdrawProposal(p1, "changed my mind")
		concluded := status(p1)
		for _, voter := range []string{a1, super, a2} {
			vote(voter, p2, BallotReject)
		}
		fmt.Printf("replay: withdraw ok=%v, P1 after the withdrawal: %s; P2 after the votes: %s; P1 after the lock was released: %s\n", w.Ok, concluded, status(p2), status(p1))
		if (concluded == REJECTED || concluded == APPROVED) && status(p1) != concluded {
			fmt.Println("REPLAY-CONFIRMED a concluded (withdrawn) proposal changed its status again when the proposal that had locked it was concluded")
			return
		}
	default:
		fmt.Println("REPLAY-NOT-CONFIRMED unknown scenario", in.Values["scenario"])
		return
	}
	fmt.Println("REPLAY-NOT-CONFIRMED the scenario behaves as specified")
}
