package contracts

// Replay harness used by /verif/govc for the access obligations (C17 / C03): an account that is
// neither an administrator nor one of the built-in contracts invokes a method directly; the
// violation is reproduced when the call performs an effectful stub operation.
// (Shares govcFakeStub with contracts_tm_replay_test.go; both files are injected together.)

import (
	"encoding/json"
	"fmt"
	"os"
	"strings"
	"testing"

	"github.com/meshplus/bitxhub-core/governance"
	"github.com/meshplus/bitxhub-model/pb"
)

func TestGovcReplayAccess(t *testing.T) {
	in := govcReadInput(t)
	method := in.Values["method"]
	stub := newGovcFakeStub()
	stub.caller = "0x00000000000000000000000000000000000a77ac"
	stub.currentCaller = stub.caller
	stub.store[BitXHubID] = []byte("1356")
	var ok bool
	func() {
		defer func() {
			if r := recover(); r != nil {
				fmt.Println("replay: call panicked:", r)
			}
		}()
		switch method {
		case "InterchainManager.Register":
			ok = (&InterchainManager{Stub: stub}).Register("chain0:service0").Ok
		case "InterchainManager.DeleteInterchain":
			stub.store[serviceKey("1356:chain0:service0")] = []byte{1}
			before := len(stub.store)
			ok = (&InterchainManager{Stub: stub}).DeleteInterchain("1356:chain0:service0").Ok
			fmt.Printf("replay: interchain records before=%d after=%d\n", before, len(stub.store))
		case "InterchainManager.HandleIBTPData":
			ibtp := &pb.IBTP{From: "9999:chainX:serviceX", To: "1356:1356:service0", Index: 1, Type: pb.IBTP_INTERCHAIN, TimeoutHeight: 10}
			data, _ := ibtp.Marshal()
			ok = (&InterchainManager{Stub: stub}).HandleIBTPData(data).Ok
		case "Governance.ZeroPermission":
			p := &Proposal{Id: "p-1", Typ: AppchainMgr, Status: govcReplayZeroStatus(), StrategyType: ZeroPermission, EventType: governance.EventUpdate, ObjId: "chain0"}
			stub.SetObject(ProposalKey(p.Id), p)
			stub.effects = 0
			ok = (&Governance{Stub: stub}).ZeroPermission(p.Id).Ok
			after := &Proposal{}
			stub.GetObject(ProposalKey(p.Id), after)
			fmt.Printf("replay: proposal status REJECTED -> %s\n", after.Status)
		case "ServiceRegistry.Manage":
			extra, _ := json.Marshal(SubDomainProposalData{ParentName: "victim.hub", SonName: "x", Onwer: stub.caller, Resolver: "0x0000000000000000000000000000000000000024", ServiceName: "s"})
			ok = ServiceRegistry{Stub: stub}.Manage(string(governance.EventRegister), string(APPROVED), "", "", extra).Ok
		default:
			fmt.Println("REPLAY-NOT-CONFIRMED no scenario for", method)
			return
		}
	}()
	fmt.Printf("replay: outsider %s called %s directly: ok=%v effectful stub operations=%d\n", stub.caller, method, ok, stub.effects)
	if stub.effects > 0 {
		fmt.Println("REPLAY-CONFIRMED an account without any role made", method, "change state")
	} else {
		fmt.Println("REPLAY-NOT-CONFIRMED no effect happened")
	}
}

// govcReplayZeroStatus: the status of the stored zero-permission proposal in the ZeroPermission scenario.
// The C15 obligation (a finished proposal is not concluded again) replays with a REJECTED proposal, the
// C17 obligation (no caller check at all) with one that is still open.
func govcReplayZeroStatus() ProposalStatus {
	if strings.Contains(os.Getenv("GOVC_REPLAY_CLAUSE"), "finished-proposal") {
		return REJECTED
	}
	return PROPOSED
}
