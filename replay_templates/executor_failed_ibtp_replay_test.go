package executor

import (
	"fmt"
	"io/ioutil"
	"math/big"
	"os"
	"path/filepath"
	"testing"

	"github.com/meshplus/bitxhub-core/governance"
	service_mgr "github.com/meshplus/bitxhub-core/service-mgr"
	"github.com/meshplus/bitxhub-kit/log"
	"github.com/meshplus/bitxhub-kit/storage/blockfile"
	"github.com/meshplus/bitxhub-kit/storage/leveldb"
	"github.com/meshplus/bitxhub-kit/types"
	"github.com/meshplus/bitxhub-model/constant"
	"github.com/meshplus/bitxhub-model/pb"
	"github.com/meshplus/bitxhub/internal/executor/contracts"
	"github.com/meshplus/bitxhub/internal/ledger"
	"github.com/meshplus/bitxhub/pkg/vm/boltvm"
	"github.com/meshplus/bitxhub/internal/repo"
	"github.com/meshplus/bitxhub/internal/executor/oracle/appchain"
)

var _ = boltvm.New
var _ repo.Config
var _ = ioutil.ReadFile

// Replay harness used by /verif/govc (injected with `go test -overlay`, never written into the repository):
// a real ledger, the real executor and the real built-in contracts. Audit is enabled and an interchain request
// is addressed to a service of the relay chain itself, so InterchainManager.HandleIBTP fails in its audit step
// AFTER it has begun the transaction and advanced the counters.
func TestGovcReplayFailedIBTP(t *testing.T) {
	if os.Getenv("GOVC_REPLAY_INPUT") == "" {
		t.Skip("no replay input")
	}
	repoRoot, _ := ioutil.TempDir("", "f7")
	defer os.RemoveAll(repoRoot)
	blockchainStorage, _ := leveldb.New(filepath.Join(repoRoot, "storage"))
	ldb, _ := leveldb.New(filepath.Join(repoRoot, "ledger"))
	accountCache, _ := ledger.NewAccountCache()
	blockFile, _ := blockfile.NewBlockFile(repoRoot, log.NewWithModule("replay"))
	ldg, err := ledger.New(createMockRepo(t), blockchainStorage, ldb, blockFile, accountCache, log.NewWithModule("ledger"))
	if err != nil {
		t.Fatal(err)
	}
	config := generateMockConfig(t)
	config.Executor.EnableAudit = true
	exec, err := New(ldg, log.NewWithModule("executor"), &appchain.Client{}, config, big.NewInt(0))
	if err != nil {
		t.Fatal(err)
	}
	ic := constant.InterchainContractAddr.Address()
	ldg.PrepareBlock(types.NewHash([]byte{1}), 2)
	ldg.SetState(ic, []byte(contracts.BitXHubID), []byte("1356"), nil)
	exec.serviceCache.Store("chain0:svc0", &service_mgr.Service{ChainID: "chain0", ServiceID: "svc0", Status: governance.GovernanceAvailable, Ordered: true})
	from := types.NewAddressByStr("0x1000000000000000000000000000000000000001")
	ldg.SetBalance(from, big.NewInt(1000000))
	ldg.Finalise(true)

	srcKey := []byte("service-1356:chain0:svc0")
	okBefore, _ := ldg.GetState(ic, srcKey)
	ibtp := &pb.IBTP{From: "1356:chain0:svc0", To: "1356:1356:svcX", Index: 1, Type: pb.IBTP_INTERCHAIN, TimeoutHeight: 10, Payload: []byte("p")}
	tx := &pb.BxhTransaction{From: from, To: ic, IBTP: ibtp, Nonce: 0}
	tx.TransactionHash = tx.Hash()
	exec.currentHeight = 1
	receipt := exec.applyTransaction(0, tx, "", nil)
	okAfter, val := ldg.GetState(ic, srcKey)
	okTx, _ := ldg.GetState(constant.TransactionMgrContractAddr.Address(), []byte(contracts.TxInfoKey("1356:chain0:svc0-1356:1356:svcX-1")))
	fmt.Printf("replay: receipt status=%v ret=%q; interchain record of the source service present before=%v after=%v (%d bytes); transaction record present after=%v\n",
		receipt.Status, string(receipt.Ret), okBefore, okAfter, len(val), okTx)
	if receipt.Status == pb.Receipt_FAILED && !okBefore && (okAfter || okTx) {
		fmt.Println("REPLAY-CONFIRMED a FAILED receipt left the interchain counters / transaction record it wrote in the ledger")
		return
	}
	fmt.Println("REPLAY-NOT-CONFIRMED the failed transaction left no contract state")
}

func TestGovcReplayFailedIBTPAnnounced(t *testing.T) {
	if os.Getenv("GOVC_REPLAY_INPUT") == "" {
		t.Skip("no replay input")
	}
	repoRoot, _ := ioutil.TempDir("", "f7")
	defer os.RemoveAll(repoRoot)
	blockchainStorage, _ := leveldb.New(filepath.Join(repoRoot, "storage"))
	ldb, _ := leveldb.New(filepath.Join(repoRoot, "ledger"))
	accountCache, _ := ledger.NewAccountCache()
	blockFile, _ := blockfile.NewBlockFile(repoRoot, log.NewWithModule("replay"))
	ldg, err := ledger.New(createMockRepo(t), blockchainStorage, ldb, blockFile, accountCache, log.NewWithModule("ledger"))
	if err != nil {
		t.Fatal(err)
	}
	config := generateMockConfig(t)
	config.Executor.EnableAudit = true
	exec, err := New(ldg, log.NewWithModule("executor"), &appchain.Client{}, config, big.NewInt(0))
	if err != nil {
		t.Fatal(err)
	}
	ic := constant.InterchainContractAddr.Address()
	ldg.PrepareBlock(types.NewHash([]byte{1}), 2)
	ldg.SetState(ic, []byte(contracts.BitXHubID), []byte("1356"), nil)
	exec.serviceCache.Store("chain0:svc0", &service_mgr.Service{ChainID: "chain0", ServiceID: "svc0", Status: governance.GovernanceAvailable, Ordered: true})
	from := types.NewAddressByStr("0x1000000000000000000000000000000000000001")
	ldg.SetBalance(from, big.NewInt(1000000))
	ldg.Finalise(true)

	srcKey := []byte("service-1356:chain0:svc0")
	okBefore, _ := ldg.GetState(ic, srcKey)
	ibtp := &pb.IBTP{From: "1356:chain0:svc0", To: "1356:1356:svcX", Index: 1, Type: pb.IBTP_INTERCHAIN, TimeoutHeight: 10, Payload: []byte("p")}
	tx := &pb.BxhTransaction{From: from, To: ic, IBTP: ibtp, Nonce: 0}
	tx.TransactionHash = tx.Hash()
	exec.currentHeight = 1
	receipt := exec.txsExecutor.ApplyTransactions([]pb.Transaction{tx}, nil)[0]
	counter := exec.txsExecutor.GetInterchainCounter()
	okAfter, val := ldg.GetState(ic, srcKey)
	_, _, _ = okAfter, val, okBefore
	validAnnounced := 0
	for _, list := range counter {
		for _, vi := range list {
			if vi.Valid {
				validAnnounced++
			}
		}
	}
	fmt.Printf("replay: receipt status=%v ret=%q; interchain counter of the block after the failed transaction: %v\n", receipt.Status, string(receipt.Ret), counter)
	if receipt.Status == pb.Receipt_FAILED && validAnnounced > 0 {
		fmt.Println("REPLAY-CONFIRMED a transaction with a FAILED receipt is listed as a valid interchain delivery in the block's counter")
		return
	}
	fmt.Println("REPLAY-NOT-CONFIRMED the failed transaction is not announced as a valid delivery")
}
