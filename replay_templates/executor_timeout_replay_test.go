package executor

// Replay harness used by /verif/govc (injected with `go test -overlay`, never written into the repository):
// the timeout-list bookkeeping of the executor on a real ledger.

import (
	"fmt"
	"io/ioutil"
	"os"
	"path/filepath"
	"strings"
	"testing"

	"github.com/meshplus/bitxhub-kit/log"
	"github.com/meshplus/bitxhub-kit/storage/blockfile"
	"github.com/meshplus/bitxhub-kit/storage/leveldb"
	"github.com/meshplus/bitxhub-kit/types"
	"github.com/meshplus/bitxhub-model/constant"
	"github.com/meshplus/bitxhub-model/pb"
	"github.com/meshplus/bitxhub/internal/executor/contracts"
	"github.com/meshplus/bitxhub/internal/ledger"
)

func TestGovcReplayTimeoutList(t *testing.T) {
	if os.Getenv("GOVC_REPLAY_INPUT") == "" {
		t.Skip("no replay input")
	}
	repoRoot, _ := ioutil.TempDir("", "govc-timeout")
	defer os.RemoveAll(repoRoot)
	blockchainStorage, _ := leveldb.New(filepath.Join(repoRoot, "storage"))
	ldb, _ := leveldb.New(filepath.Join(repoRoot, "ledger"))
	accountCache, _ := ledger.NewAccountCache()
	blockFile, _ := blockfile.NewBlockFile(repoRoot, log.NewWithModule("replay"))
	ldg, err := ledger.New(createMockRepo(t), blockchainStorage, ldb, blockFile, accountCache, log.NewWithModule("ledger"))
	if err != nil {
		t.Fatal(err)
	}
	exec := &BlockExecutor{ledger: ldg, logger: log.NewWithModule("executor")}
	tm := constant.TransactionMgrContractAddr.Address()

	// history so far: request 1 of the pair was accepted at height 5 with timeout 10 (record BEGIN, listed at height 15);
	// in block 7 the destination's RECEIPT_FAILURE was accepted, TransactionManager.Report moved the record to FAILURE.
	from, to := "1356:chain0:svc0", "1356:chain1:svc1"
	id := fmt.Sprintf("%s-%s-%d", from, to, 1)
	rec := pb.TransactionRecord{Height: 15, Status: pb.TransactionStatus_FAILURE}
	recData, _ := rec.Marshal()
	ldg.SetState(tm, []byte(contracts.TxInfoKey(id)), recData, nil)
	ldg.SetState(tm, []byte(contracts.TimeoutKey(15)), []byte(id), nil)

	receipt := &pb.IBTP{From: from, To: to, Index: 1, Type: pb.IBTP_RECEIPT_FAILURE}
	tx := &pb.BxhTransaction{From: types.NewAddressByStr("0x1000000000000000000000000000000000000001"), To: constant.InterchainContractAddr.Address(), IBTP: receipt}
	tx.TransactionHash = tx.Hash()

	// after block 7: the accepted receipt must take the id off the list of the recorded height
	if err := exec.setTimeoutList(7, []pb.Transaction{tx}, map[string]bool{}, map[string]bool{}, "1356"); err != nil {
		fmt.Println("REPLAY-NOT-CONFIRMED setTimeoutList failed:", err)
		return
	}
	_, list := ldg.GetState(tm, []byte(contracts.TimeoutKey(15)))
	stillListed := false
	for _, x := range strings.Split(string(list), ",") {
		if x == id {
			stillListed = true
		}
	}
	// block 15: the timeout fires for whatever is still listed
	_ = exec.setTimeoutRollback(15)
	_, after := ldg.GetState(tm, []byte(contracts.TxInfoKey(id)))
	var got pb.TransactionRecord
	_ = got.Unmarshal(after)
	fmt.Printf("replay: after the accepted RECEIPT_FAILURE timeout-15 = %q (id still listed: %v); after the timeout at height 15 the record status is %s (was FAILURE, a final status)\n",
		string(list), stillListed, got.Status)
	if stillListed {
		fmt.Println("REPLAY-CONFIRMED an accepted receipt did not remove its transaction from the timeout list; the timeout then overwrote the final status with", got.Status)
		return
	}
	fmt.Println("REPLAY-NOT-CONFIRMED the receipt removed its id from the timeout list")
}
