package executor

// Replay harness used by /verif/govc: injected with `go test -overlay`, never
// written into the repository. It realises the solver's counterexample for
// (*BlockExecutor).transfer on a real ledger and re-evaluates the violated
// contract clause in plain Go.

import (
	"encoding/json"
	"fmt"
	"io/ioutil"
	"math/big"
	"os"
	"path/filepath"
	"testing"

	"github.com/meshplus/bitxhub-kit/log"
	"github.com/meshplus/bitxhub-kit/storage/blockfile"
	"github.com/meshplus/bitxhub-kit/storage/leveldb"
	"github.com/meshplus/bitxhub-kit/types"
	"github.com/meshplus/bitxhub/internal/ledger"
)

type govcReplayInput struct {
	Clause string            `json:"clause"`
	Values map[string]string `json:"values"`
}

func govcBig(s string) *big.Int {
	v, ok := new(big.Int).SetString(s, 10)
	if !ok {
		return big.NewInt(0)
	}
	return v
}

func TestGovcReplayTransfer(t *testing.T) {
	raw, err := ioutil.ReadFile(os.Getenv("GOVC_REPLAY_INPUT"))
	if err != nil {
		t.Skip("no replay input")
	}
	var in govcReplayInput
	if err := json.Unmarshal(raw, &in); err != nil {
		t.Fatal(err)
	}
	repoRoot, err := ioutil.TempDir("", "govc-replay")
	if err != nil {
		t.Fatal(err)
	}
	defer os.RemoveAll(repoRoot)
	blockchainStorage, err := leveldb.New(filepath.Join(repoRoot, "storage"))
	if err != nil {
		t.Fatal(err)
	}
	ldb, err := leveldb.New(filepath.Join(repoRoot, "ledger"))
	if err != nil {
		t.Fatal(err)
	}
	accountCache, err := ledger.NewAccountCache()
	if err != nil {
		t.Fatal(err)
	}
	blockFile, err := blockfile.NewBlockFile(repoRoot, log.NewWithModule("replay"))
	if err != nil {
		t.Fatal(err)
	}
	ldg, err := ledger.New(createMockRepo(t), blockchainStorage, ldb, blockFile, accountCache, log.NewWithModule("ledger"))
	if err != nil {
		t.Fatal(err)
	}
	exec := &BlockExecutor{ledger: ldg, logger: log.NewWithModule("executor")}

	if in.Values["toNil"] == "true" {
		// a transfer whose receiver is absent (C08): the call must come back, with or without an error
		sender := types.NewAddressByStr("0x1000000000000000000000000000000000000001")
		ldg.SetBalance(sender, big.NewInt(1000))
		var perr interface{}
		var terr error
		func() {
			defer func() { perr = recover() }()
			terr = exec.transfer(sender, nil, big.NewInt(5))
		}()
		fmt.Printf("replay: transfer(sender, nil, 5) -> err=%v panic=%v\n", terr, perr)
		if perr != nil {
			fmt.Println("REPLAY-CONFIRMED clause", in.Clause, "is violated by the real function on this input: transfer to an absent receiver panics (the executor does not recover: node crash)")
		} else {
			fmt.Println("REPLAY-NOT-CONFIRMED the call returned")
		}
		return
	}
	from := types.NewAddressByStr("0x1000000000000000000000000000000000000001")
	to := types.NewAddressByStr("0x2000000000000000000000000000000000000002")
	same := in.Values["same"] == "true"
	if same {
		to = types.NewAddressByStr("0x1000000000000000000000000000000000000001")
	}
	balFrom, balTo := govcBig(in.Values["balFrom"]), govcBig(in.Values["balTo"])
	if same {
		balTo = balFrom
	}
	if balFrom.Sign() < 0 || balTo.Sign() < 0 {
		fmt.Println("REPLAY-NOT-CONFIRMED negative balance in model")
		return
	}
	ldg.SetBalance(from, new(big.Int).Set(balFrom))
	ldg.SetBalance(to, new(big.Int).Set(balTo))
	var value *big.Int
	if in.Values["valueNil"] != "true" {
		value = govcBig(in.Values["amount"])
	}
	sumBefore := new(big.Int).Set(balFrom)
	if !same {
		sumBefore.Add(sumBefore, balTo)
	}
	rerr := exec.transfer(from, to, value)
	afterFrom, afterTo := ldg.GetBalance(from), ldg.GetBalance(to)
	sumAfter := new(big.Int).Set(afterFrom)
	if !same {
		sumAfter.Add(sumAfter, afterTo)
	}
	fmt.Printf("replay: same=%v balFrom=%v balTo=%v value=%v -> err=%v from'=%v to'=%v\n", same, balFrom, balTo, value, rerr, afterFrom, afterTo)
	violated := false
	switch in.Clause {
	case "total-conserved":
		violated = rerr == nil && sumAfter.Cmp(sumBefore) != 0
	case "self-transfer-neutral":
		violated = rerr == nil && same && afterFrom.Cmp(balFrom) != 0
	case "moves-amount":
		violated = rerr == nil && value != nil && !same &&
			(afterFrom.Cmp(new(big.Int).Sub(balFrom, value)) != 0 || afterTo.Cmp(new(big.Int).Add(balTo, value)) != 0)
	case "covered":
		violated = rerr == nil && value != nil && value.Sign() != 0 && balFrom.Cmp(value) < 0
	case "no-negative":
		violated = afterFrom.Sign() < 0 || afterTo.Sign() < 0
	case "fail-no-effect":
		violated = rerr != nil && (afterFrom.Cmp(balFrom) != 0 || afterTo.Cmp(balTo) != 0)
	case "nil-or-zero-is-noop":
		violated = (value == nil || value.Sign() == 0) && (rerr != nil || afterFrom.Cmp(balFrom) != 0 || afterTo.Cmp(balTo) != 0)
	default:
		fmt.Println("REPLAY-NOT-CONFIRMED no Go oracle for clause", in.Clause)
		return
	}
	if violated {
		fmt.Println("REPLAY-CONFIRMED clause", in.Clause, "is violated by the real function on this input")
	} else {
		fmt.Println("REPLAY-NOT-CONFIRMED clause", in.Clause, "holds on this input")
	}
}
