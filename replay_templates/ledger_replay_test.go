package ledger

// Replay harness used by /verif/govc (injected with `go test -overlay`, never written into the
// repository): scenario replays on a real SimpleLedger over a temporary LevelDB.

import (
	"encoding/json"
	"fmt"
	"io/ioutil"
	"math/big"
	"os"
	"strings"
	"testing"

	"path/filepath"
	"github.com/meshplus/bitxhub-kit/log"
	"github.com/meshplus/bitxhub-kit/storage/blockfile"
	"github.com/meshplus/bitxhub-kit/storage/leveldb"
	"github.com/meshplus/bitxhub-kit/types"
	"github.com/meshplus/bitxhub-model/pb"
)

type govcLedgerIn struct {
	Clause string            `json:"clause"`
	Values map[string]string `json:"values"`
}

func TestGovcReplayLedger(t *testing.T) {
	var in govcLedgerIn
	raw, err := ioutil.ReadFile(os.Getenv("GOVC_REPLAY_INPUT"))
	if err != nil {
		t.Skip("no replay input")
	}
	_ = json.Unmarshal(raw, &in)
	ldg, root := initLedger(t, "")
	defer os.RemoveAll(root)
	l := ldg.StateLedger.(*SimpleLedger)
	a := types.NewAddressByStr("0x1000000000000000000000000000000000000001")
	scenario := in.Values["scenario"]
	if strings.Contains(in.Clause, "pruning") {
		scenario = "commit-after-a-crash-before-pruning"
	}
	if strings.Contains(in.Clause, "object-keys-are-text") {
		scenario = "rollback-over-a-storage-key-that-is-not-text"
	}
	if strings.Contains(in.Clause, "tx-meta") {
		// the tx-meta clauses of the rollback contracts are replayed by the lookup scenario
		scenario = "lookups-after-rollback-and-reexecution"
	}
	switch scenario {
	case "changer-replaced-after-finalise":
		// tx 1 touches the account and is finalised; tx 2 writes to the same (still loaded) account and is reverted
		l.SetBalance(a, big.NewInt(100))
		l.SetState(a, []byte("k"), []byte("v1"), nil)
		l.SetNonce(a, 1)
		l.Finalise(true)
		snap := l.Snapshot()
		l.SetBalance(a, big.NewInt(5))
		l.SetState(a, []byte("k"), []byte("v2"), nil)
		l.SetNonce(a, 2)
		l.RevertToSnapshot(snap)
		_, v := l.GetState(a, []byte("k"))
		fmt.Printf("replay: after revert balance=%v nonce=%d state=%q (expected 100, 1, \"v1\")\n", l.GetBalance(a), l.GetNonce(a), v)
		if l.GetBalance(a).Cmp(big.NewInt(100)) != 0 || l.GetNonce(a) != 1 || string(v) != "v1" {
			fmt.Println("REPLAY-CONFIRMED RevertToSnapshot did not undo the writes of the reverted transaction")
			return
		}
	case "height-index-survives-rollback":
		// two blocks persisted, chain rolled back to 1: the height -> hash index must not answer for height 2 any more
		for h := uint64(1); h <= 2; h++ {
			ldg.PrepareBlock(nil, h)
			ldg.SetBalance(a, big.NewInt(int64(h)))
			accounts, root := ldg.FlushDirtyData()
			bd := genBlockData(h, accounts, root)
			bd.Block.BlockHash = types.NewHash([]byte{byte(h)})
			ldg.PersistBlockData(bd)
		}
		before := ldg.GetBlockHash(2).String()
		if err := ldg.Rollback(1); err != nil {
			fmt.Println("REPLAY-NOT-CONFIRMED rollback failed:", err)
			return
		}
		after := ldg.GetBlockHash(2)
		_, gerr := ldg.GetBlock(2, false)
		fmt.Printf("replay: GetBlockHash(2) before rollback=%s after rollback to 1=%s, GetBlock(2) error=%v, chain height=%d\n", before, after.String(), gerr, ldg.GetChainMeta().Height)
		if after.String() != (&types.Hash{}).String() {
			fmt.Println("REPLAY-CONFIRMED the block-height index of a rolled-back block is still answered")
			return
		}
	case "height-lookup-returns-the-block-hash":
		// one block persisted with a known hash: the height -> hash lookup must return that hash
		ldg.PrepareBlock(nil, 1)
		ldg.SetBalance(a, big.NewInt(1))
		accounts, root := ldg.FlushDirtyData()
		bd := genBlockData(1, accounts, root)
		bd.Block.BlockHash = bd.Block.Hash()
		ldg.PersistBlockData(bd)
		got := ldg.GetBlockHash(1)
		blk, gerr := ldg.GetBlock(1, false)
		fmt.Printf("replay: persisted block 1 with hash %s; GetBlockHash(1)=%s; GetBlock(1).BlockHash=%v (err %v)\n", bd.Block.BlockHash.String(), got.String(), blk.BlockHash, gerr)
		if got.String() != bd.Block.BlockHash.String() {
			fmt.Println("REPLAY-CONFIRMED GetBlockHash(h) is not the hash of the block stored at height h")
			return
		}
	case "deleted-key-between-flush-and-commit":
		// block 1 commits k=v1; block 2 deletes k and is flushed but NOT committed yet; block 3 reads k: the account
		// cache is the only layer that knows about the deletion
		l.SetState(a, []byte("k"), []byte("v1"), nil)
		l.Finalise(true)
		accounts, r1 := l.FlushDirtyData()
		if err := l.Commit(1, accounts, r1); err != nil {
			fmt.Println("REPLAY-NOT-CONFIRMED commit failed:", err)
			return
		}
		l.SetState(a, []byte("k"), nil, nil)
		l.Finalise(true)
		l.FlushDirtyData()
		ok, v := l.GetState(a, []byte("k"))
		fmt.Printf("replay: key deleted in a flushed, not yet committed block reads back as ok=%v value=%q (expected absent)\n", ok, v)
		if ok || v != nil {
			fmt.Println("REPLAY-CONFIRMED a deleted key is answered from the database between FlushDirtyData and Commit")
			return
		}
	case "drained-account-after-reopen":
		// an account with a stored record is drained to zero, flushed and committed; a fresh cache must read zero
		l.SetBalance(a, big.NewInt(5))
		l.Finalise(true)
		accounts, r1 := l.FlushDirtyData()
		if err := l.Commit(1, accounts, r1); err != nil {
			fmt.Println("REPLAY-NOT-CONFIRMED commit failed:", err)
			return
		}
		l.SetBalance(a, big.NewInt(0))
		l.Finalise(true)
		accounts, r2 := l.FlushDirtyData()
		if err := l.Commit(2, accounts, r2); err != nil {
			fmt.Println("REPLAY-NOT-CONFIRMED commit failed:", err)
			return
		}
		l.accountCache.clear()
		l.Clear()
		got := l.GetBalance(a)
		fmt.Printf("replay: balance of the drained account read past the cache = %v (expected 0)\n", got)
		if got.Sign() != 0 {
			fmt.Println("REPLAY-CONFIRMED the record of a changed account did not reach the database")
			return
		}
	case "cached-code-after-rollback":
		// code A at height 1, overwritten by code B at height 2, rollback to 1, a later block touches the balance only:
		// the code read afterwards must be A
		codeA, codeB := []byte("code-A-code-A-code-A"), []byte("code-B-code-B-code-B-code-B")
		for h, code := range [][]byte{codeA, codeB} {
			l.SetCode(a, code)
			l.Finalise(true)
			accounts, r := l.FlushDirtyData()
			if err := l.Commit(uint64(h+1), accounts, r); err != nil {
				fmt.Println("REPLAY-NOT-CONFIRMED commit failed:", err)
				return
			}
		}
		if err := l.RollbackState(1); err != nil {
			fmt.Println("REPLAY-NOT-CONFIRMED rollback failed:", err)
			return
		}
		l.SetBalance(a, big.NewInt(7))
		l.Finalise(true)
		accounts, r := l.FlushDirtyData()
		if err := l.Commit(2, accounts, r); err != nil {
			fmt.Println("REPLAY-NOT-CONFIRMED commit failed:", err)
			return
		}
		l.Clear()
		got := l.GetCode(a)
		fmt.Printf("replay: code read after rollback to 1 and a continuation = %q (expected %q)\n", got, codeA)
		if string(got) != string(codeA) {
			fmt.Println("REPLAY-CONFIRMED a read after an accepted rollback is served from a rolled-back block (cache not emptied)")
			return
		}
	case "lookups-after-rollback-and-reexecution":
		// blocks 1..3 with transactions; one receipt lookup at height 3; rollback to 2; a different block 3: lookups by the
		// hashes of the removed block must fail, lookups of the new block must answer the new block's data
		mk := func(h uint64, parent *types.Hash, tags ...string) (*pb.Block, []pb.Transaction) {
			ldg.PrepareBlock(nil, h)
			ldg.SetBalance(a, big.NewInt(int64(h*1000)+int64(len(tags))))
			accounts, sroot := ldg.FlushDirtyData()
			var txs []pb.Transaction
			var rcs []*pb.Receipt
			for i, tag := range tags {
				tx := &pb.BxhTransaction{From: a, To: a, Timestamp: int64(h), Nonce: uint64(i), Payload: []byte(tag)}
				tx.TransactionHash = tx.Hash()
				txs = append(txs, tx)
				rcs = append(rcs, &pb.Receipt{TxHash: tx.GetHash(), Ret: []byte(tag), Status: pb.Receipt_SUCCESS})
			}
			blk := &pb.Block{BlockHeader: &pb.BlockHeader{Number: h, ParentHash: parent, StateRoot: sroot, Timestamp: int64(h)}, Transactions: &pb.Transactions{Transactions: txs}}
			blk.BlockHash = blk.Hash()
			ldg.PersistBlockData(&BlockData{Block: blk, Receipts: rcs, Accounts: accounts, InterchainMeta: &pb.InterchainMeta{}})
			return blk, txs
		}
		b1, _ := mk(1, &types.Hash{}, "a1")
		b2, _ := mk(2, b1.BlockHash, "b1", "b2")
		_, old3 := mk(3, b2.BlockHash, "c1", "c2")
		if r, err := ldg.GetReceipt(old3[0].GetHash()); err != nil || string(r.Ret) != "c1" {
			fmt.Println("REPLAY-CONFIRMED a receipt of the head block is not found by its transaction hash:", err)
			return
		}
		if err := ldg.Rollback(2); err != nil {
			fmt.Println("REPLAY-NOT-CONFIRMED rollback failed:", err)
			return
		}
		for _, tx := range old3 {
			if m, err := ldg.GetTransactionMeta(tx.GetHash()); err == nil {
				fmt.Printf("replay: tx meta of a rolled-back transaction still answers: height %d index %d\n", m.BlockHeight, m.Index)
				fmt.Println("REPLAY-CONFIRMED a lookup by transaction hash answers for a rolled-back transaction")
				return
			}
		}
		_, new3 := mk(3, b2.BlockHash, "e1", "e2", "e3")
		for i, tx := range new3 {
			r, err := ldg.GetReceipt(tx.GetHash())
			t2, err2 := ldg.GetTransaction(tx.GetHash())
			fmt.Printf("replay: new block 3 position %d: receipt %v (err %v), tx found %v (err %v)\n", i, r != nil && string(r.Ret) == string(tx.GetPayload()), err, t2 != nil, err2)
			if err != nil || err2 != nil || string(r.Ret) != string(tx.GetPayload()) || t2.GetHash().String() != tx.GetHash().String() {
				fmt.Println("REPLAY-CONFIRMED a lookup by transaction hash does not answer the data of the block stored at the indexed height and position")
				return
			}
		}
	case "reopen-after-a-crash-between-the-two-commits":
		// block 1 persisted completely; of block 2 only ONE of the two independent commits happened (the process died
		// between them); the node comes back: the ledger must open at height 1 (or 2), whichever store is ahead
		for _, which := range []string{"chain index ahead", "state store ahead"} {
			lg, dir := initLedger(t, "")
			lg.PrepareBlock(nil, 1)
			lg.SetBalance(a, big.NewInt(1))
			accounts, r1 := lg.FlushDirtyData()
			lg.PersistBlockData(genBlockData(1, accounts, r1))
			lg.PrepareBlock(nil, 2)
			lg.SetBalance(a, big.NewInt(2))
			accounts, r2 := lg.FlushDirtyData()
			bd := genBlockData(2, accounts, r2)
			var perr error
			if which == "chain index ahead" {
				perr = lg.ChainLedger.PersistExecutionResult(bd.Block, bd.Receipts, bd.InterchainMeta)
			} else {
				perr = lg.StateLedger.Commit(2, accounts, r2)
			}
			if perr != nil {
				fmt.Println("REPLAY-NOT-CONFIRMED could not persist one side:", perr)
				return
			}
			lg.Close()
			bs, _ := leveldb.New(filepath.Join(dir, "storage"))
			sdb, _ := leveldb.New(filepath.Join(dir, "ledger"))
			ac, _ := NewAccountCache()
			lgr := log.NewWithModule("replay")
			bf, _ := blockfile.NewBlockFile(dir, lgr)
			l2, err := New(createMockRepo(t), bs, sdb, bf, ac, lgr)
			if err != nil {
				fmt.Printf("replay: %s by one block: reopening the ledger FAILED: %v\n", which, err)
				fmt.Println("REPLAY-CONFIRMED after a crash between the two commits of a block the ledger does not open")
				os.RemoveAll(dir)
				return
			}
			fmt.Printf("replay: %s by one block: reopened at chain height %d, state version %d, balance %v\n", which, l2.GetChainMeta().Height, l2.Version(), l2.GetBalance(a))
			if l2.GetChainMeta().Height != l2.Version() {
				fmt.Println("REPLAY-CONFIRMED the ledger opened with the two stores at different heights")
				os.RemoveAll(dir)
				return
			}
			l2.Close()
			os.RemoveAll(dir)
		}
	case "prefix-query-after-overwrite-and-delete":
		// block 1 commits three keys with the prefix; block 2 overwrites one and deletes another: the prefix query must
		// answer exactly the latest values of the keys that are still live
		l.SetState(a, []byte("p-1"), []byte("old1"), nil)
		l.SetState(a, []byte("p-2"), []byte("old2"), nil)
		l.SetState(a, []byte("p-3"), []byte("keep3"), nil)
		l.Finalise(true)
		accounts, r1 := l.FlushDirtyData()
		if err := l.Commit(1, accounts, r1); err != nil {
			fmt.Println("REPLAY-NOT-CONFIRMED commit failed:", err)
			return
		}
		l.SetState(a, []byte("p-1"), []byte("new1"), nil)
		l.SetState(a, []byte("p-2"), nil, nil)
		ok, vals := l.QueryByPrefix(a, "p-")
		var got []string
		for _, v := range vals {
			got = append(got, fmt.Sprintf("%q", v))
		}
		fmt.Printf("replay: p-1 overwritten, p-2 deleted, p-3 untouched: QueryByPrefix(\"p-\") = ok %v, %d values [%s] (expected exactly \"keep3\" and \"new1\")\n", ok, len(vals), strings.Join(got, " "))
		if len(vals) != 2 || !((string(vals[0]) == "keep3" && string(vals[1]) == "new1") || (string(vals[0]) == "new1" && string(vals[1]) == "keep3")) {
			fmt.Println("REPLAY-CONFIRMED a prefix query does not answer exactly the values of the live keys with the prefix")
			return
		}
	case "rollback-over-a-storage-key-that-is-not-text":
		// storage keys that are not valid UTF-8 (every EVM mapping slot is a 32-byte hash): block 1 writes v1, block 2
		// overwrites it and writes a second such key; a rollback to block 1 must read v1 and must not find the second key
		lg, dir := initLedger(t, "")
		defer os.RemoveAll(dir)
		k1, k2 := []byte{0xff, 0xfe, 0x01}, []byte{0xc3, 0x28, 0x02}
		lg.PrepareBlock(nil, 1)
		lg.SetBalance(a, big.NewInt(1))
		lg.SetState(a, k1, []byte("v1"), nil)
		accounts, r1 := lg.FlushDirtyData()
		lg.PersistBlockData(genBlockData(1, accounts, r1))
		lg.PrepareBlock(nil, 2)
		lg.SetState(a, k1, []byte("v2"), nil)
		lg.SetState(a, k2, []byte("w2"), nil)
		accounts, r2 := lg.FlushDirtyData()
		lg.PersistBlockData(genBlockData(2, accounts, r2))
		if err := lg.Rollback(1); err != nil {
			fmt.Println("REPLAY-NOT-CONFIRMED rollback refused:", err)
			return
		}
		ok1, v1 := lg.GetState(a, k1)
		ok2, v2 := lg.GetState(a, k2)
		fmt.Printf("replay: after the rollback to block 1: key ff fe 01 -> (%v, %q) (expected true, \"v1\"); key c3 28 02 -> (%v, %q) (expected absent)\n", ok1, v1, ok2, v2)
		if !ok1 || string(v1) != "v1" || ok2 {
			fmt.Println("REPLAY-CONFIRMED a rollback does not restore storage keys that are not valid UTF-8: the journal lost them in its JSON round trip")
			return
		}
	case "commit-after-a-crash-before-pruning":
		// 13 blocks persisted; the pruning write of block 13 (the second durable write of its commit) is lost: the
		// stored lower end of the journal window stays one block behind. The node comes back and must be able to
		// commit block 14.
		lg, dir := initLedger(t, "")
		for h := uint64(1); h <= 13; h++ {
			lg.PrepareBlock(nil, h)
			lg.SetBalance(a, big.NewInt(int64(h)))
			accounts, r := lg.FlushDirtyData()
			lg.PersistBlockData(genBlockData(h, accounts, r))
		}
		sl := lg.StateLedger.(*SimpleLedger)
		behind := sl.minJnlHeight - 1
		sl.ldb.Put(compositeKey(journalKey, minHeightStr), marshalHeight(behind))
		lg.Close()
		bs, _ := leveldb.New(filepath.Join(dir, "storage"))
		sdb, _ := leveldb.New(filepath.Join(dir, "ledger"))
		ac, _ := NewAccountCache()
		lgr := log.NewWithModule("replay")
		bf, _ := blockfile.NewBlockFile(dir, lgr)
		l2, err := New(createMockRepo(t), bs, sdb, bf, ac, lgr)
		if err != nil {
			fmt.Println("REPLAY-NOT-CONFIRMED could not reopen the ledger:", err)
			os.RemoveAll(dir)
			return
		}
		fmt.Printf("replay: reopened at height %d with the journal window starting at %d (one block behind)\n", l2.Version(), l2.StateLedger.(*SimpleLedger).minJnlHeight)
		l2.PrepareBlock(nil, 14)
		l2.SetBalance(a, big.NewInt(14))
		accounts, r := l2.FlushDirtyData()
		cerr := l2.StateLedger.Commit(14, accounts, r)
		fmt.Printf("replay: commit of block 14 after the restart: %v\n", cerr)
		l2.Close()
		os.RemoveAll(dir)
		if cerr != nil {
			fmt.Println("REPLAY-CONFIRMED after a crash before the pruning write of a commit the next block cannot be committed")
			return
		}
	default:
		fmt.Println("REPLAY-NOT-CONFIRMED unknown scenario", in.Values["scenario"])
		return
	}
	fmt.Println("REPLAY-NOT-CONFIRMED the scenario behaves as specified")
}
