package ledger

// Replay harness used by /verif/govc (injected with `go test -overlay`, never written into the
// repository): scenario replays on a real SimpleLedger over a temporary LevelDB.

import (
	"encoding/json"
	"fmt"
	"io/ioutil"
	"math/big"
	"os"
	"testing"

	"github.com/meshplus/bitxhub-kit/types"
)

type govcLedgerIn struct {
	Clause string            `json:"clause"`
	Values map[string]string `json:"values"`
}

func TestGovcReplayLedger(t *testing.T) {
	var in govcLedgerIn
	raw, err := ioutil.ReadFile(os.Getenv("GOVC_REPLAY_INPUT"))
	if err != nil {
		t.Skip("no replay input")
	}
	_ = json.Unmarshal(raw, &in)
	ldg, root := initLedger(t, "")
	defer os.RemoveAll(root)
	l := ldg.StateLedger.(*SimpleLedger)
	a := types.NewAddressByStr("0x1000000000000000000000000000000000000001")
	switch in.Values["scenario"] {
	case "changer-replaced-after-finalise":
		// tx 1 touches the account and is finalised; tx 2 writes to the same (still loaded) account and is reverted
		l.SetBalance(a, big.NewInt(100))
		l.SetState(a, []byte("k"), []byte("v1"), nil)
		l.SetNonce(a, 1)
		l.Finalise(true)
		snap := l.Snapshot()
		l.SetBalance(a, big.NewInt(5))
		l.SetState(a, []byte("k"), []byte("v2"), nil)
		l.SetNonce(a, 2)
		l.RevertToSnapshot(snap)
		_, v := l.GetState(a, []byte("k"))
		fmt.Printf("replay: after revert balance=%v nonce=%d state=%q (expected 100, 1, \"v1\")\n", l.GetBalance(a), l.GetNonce(a), v)
		if l.GetBalance(a).Cmp(big.NewInt(100)) != 0 || l.GetNonce(a) != 1 || string(v) != "v1" {
			fmt.Println("REPLAY-CONFIRMED RevertToSnapshot did not undo the writes of the reverted transaction")
			return
		}
	case "height-index-survives-rollback":
		// two blocks persisted, chain rolled back to 1: the height -> hash index must not answer for height 2 any more
		for h := uint64(1); h <= 2; h++ {
			ldg.PrepareBlock(nil, h)
			ldg.SetBalance(a, big.NewInt(int64(h)))
			accounts, root := ldg.FlushDirtyData()
			bd := genBlockData(h, accounts, root)
			bd.Block.BlockHash = types.NewHash([]byte{byte(h)})
			ldg.PersistBlockData(bd)
		}
		before := ldg.GetBlockHash(2).String()
		if err := ldg.Rollback(1); err != nil {
			fmt.Println("REPLAY-NOT-CONFIRMED rollback failed:", err)
			return
		}
		after := ldg.GetBlockHash(2)
		_, gerr := ldg.GetBlock(2, false)
		fmt.Printf("replay: GetBlockHash(2) before rollback=%s after rollback to 1=%s, GetBlock(2) error=%v, chain height=%d\n", before, after.String(), gerr, ldg.GetChainMeta().Height)
		if after.String() != (&types.Hash{}).String() {
			fmt.Println("REPLAY-CONFIRMED the block-height index of a rolled-back block is still answered")
			return
		}
	case "height-lookup-returns-the-block-hash":
		// one block persisted with a known hash: the height -> hash lookup must return that hash
		ldg.PrepareBlock(nil, 1)
		ldg.SetBalance(a, big.NewInt(1))
		accounts, root := ldg.FlushDirtyData()
		bd := genBlockData(1, accounts, root)
		bd.Block.BlockHash = bd.Block.Hash()
		ldg.PersistBlockData(bd)
		got := ldg.GetBlockHash(1)
		blk, gerr := ldg.GetBlock(1, false)
		fmt.Printf("replay: persisted block 1 with hash %s; GetBlockHash(1)=%s; GetBlock(1).BlockHash=%v (err %v)\n", bd.Block.BlockHash.String(), got.String(), blk.BlockHash, gerr)
		if got.String() != bd.Block.BlockHash.String() {
			fmt.Println("REPLAY-CONFIRMED GetBlockHash(h) is not the hash of the block stored at height h")
			return
		}
	case "deleted-key-between-flush-and-commit":
		// block 1 commits k=v1; block 2 deletes k and is flushed but NOT committed yet; block 3 reads k: the account
		// cache is the only layer that knows about the deletion
		l.SetState(a, []byte("k"), []byte("v1"), nil)
		l.Finalise(true)
		accounts, r1 := l.FlushDirtyData()
		if err := l.Commit(1, accounts, r1); err != nil {
			fmt.Println("REPLAY-NOT-CONFIRMED commit failed:", err)
			return
		}
		l.SetState(a, []byte("k"), nil, nil)
		l.Finalise(true)
		l.FlushDirtyData()
		ok, v := l.GetState(a, []byte("k"))
		fmt.Printf("replay: key deleted in a flushed, not yet committed block reads back as ok=%v value=%q (expected absent)\n", ok, v)
		if ok || v != nil {
			fmt.Println("REPLAY-CONFIRMED a deleted key is answered from the database between FlushDirtyData and Commit")
			return
		}
	case "drained-account-after-reopen":
		// an account with a stored record is drained to zero, flushed and committed; a fresh cache must read zero
		l.SetBalance(a, big.NewInt(5))
		l.Finalise(true)
		accounts, r1 := l.FlushDirtyData()
		if err := l.Commit(1, accounts, r1); err != nil {
			fmt.Println("REPLAY-NOT-CONFIRMED commit failed:", err)
			return
		}
		l.SetBalance(a, big.NewInt(0))
		l.Finalise(true)
		accounts, r2 := l.FlushDirtyData()
		if err := l.Commit(2, accounts, r2); err != nil {
			fmt.Println("REPLAY-NOT-CONFIRMED commit failed:", err)
			return
		}
		l.accountCache.clear()
		l.Clear()
		got := l.GetBalance(a)
		fmt.Printf("replay: balance of the drained account read past the cache = %v (expected 0)\n", got)
		if got.Sign() != 0 {
			fmt.Println("REPLAY-CONFIRMED the record of a changed account did not reach the database")
			return
		}
	case "cached-code-after-rollback":
		// code A at height 1, overwritten by code B at height 2, rollback to 1, a later block touches the balance only:
		// the code read afterwards must be A
		codeA, codeB := []byte("code-A-code-A-code-A"), []byte("code-B-code-B-code-B-code-B")
		for h, code := range [][]byte{codeA, codeB} {
			l.SetCode(a, code)
			l.Finalise(true)
			accounts, r := l.FlushDirtyData()
			if err := l.Commit(uint64(h+1), accounts, r); err != nil {
				fmt.Println("REPLAY-NOT-CONFIRMED commit failed:", err)
				return
			}
		}
		if err := l.RollbackState(1); err != nil {
			fmt.Println("REPLAY-NOT-CONFIRMED rollback failed:", err)
			return
		}
		l.SetBalance(a, big.NewInt(7))
		l.Finalise(true)
		accounts, r := l.FlushDirtyData()
		if err := l.Commit(2, accounts, r); err != nil {
			fmt.Println("REPLAY-NOT-CONFIRMED commit failed:", err)
			return
		}
		l.Clear()
		got := l.GetCode(a)
		fmt.Printf("replay: code read after rollback to 1 and a continuation = %q (expected %q)\n", got, codeA)
		if string(got) != string(codeA) {
			fmt.Println("REPLAY-CONFIRMED a read after an accepted rollback is served from a rolled-back block (cache not emptied)")
			return
		}
	default:
		fmt.Println("REPLAY-NOT-CONFIRMED unknown scenario", in.Values["scenario"])
		return
	}
	fmt.Println("REPLAY-NOT-CONFIRMED the scenario behaves as specified")
}
