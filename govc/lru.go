package main

import (
	"go/types"
	"strings"

	"golang.org/x/tools/go/ssa"
)

// ---------------------------------------------------------------------
// hashicorp/golang-lru Cache as a finite map WITHOUT eviction (trusted model, listed in the evidence):
// a cache is identified by its pointer; Add / Get / Peek / Contains / Remove / Purge / Len are exact for a cache
// that never reaches its capacity (the recency order is not modelled). Keys are compared by their interface
// payload (one key type per cache, strings in /repo). Heap components LRU:dom / LRU:tag / LRU:val, frame item
// `lrucaches`; spec access through lruhas / lruval / lrubytes / lrutag(cache, key).

var lruKeys = []string{"LRU:dom", "LRU:tag", "LRU:val"}

func lruDeclare() {
	domS, valS := smSorts()
	for k, srt := range map[string]string{"LRU:dom": domS, "LRU:tag": valS, "LRU:val": valS} {
		if _, ok := heapSorts[k]; !ok {
			heapSorts[k] = srt
		}
	}
}

func isLruKey(key string) bool {
	return key == "lru.New" || strings.HasPrefix(key, "lru.(*Cache).")
}

func lruWrites(key string, ws *writeSet) {
	switch key {
	case "lru.(*Cache).Add", "lru.(*Cache).Remove", "lru.(*Cache).Purge", "lru.(*Cache).ContainsOrAdd", "lru.(*Cache).RemoveOldest", "lru.(*Cache).Resize":
		lruDeclare()
		for _, k := range lruKeys {
			ws.keys[k] = true
		}
	}
}

func lruID(ref *Term) *Term { return smID(ref, "*lru") }

func (e *Engine) lruOp(fr *Frame, st *State, ins ssa.Instruction, key string, args []Val, resType types.Type) (Val, bool) {
	if !isLruKey(key) {
		return Val{}, false
	}
	lruDeclare()
	domS, valS := smSorts()
	unit := Val{Fs: []Val{}}
	if key == "lru.New" {
		if len(args) != 1 || args[0].T == nil {
			return Val{}, false
		}
		r := st.newRef()
		id := lruID(r)
		dom := st.heapGet("LRU:dom", domS)
		st.heapSet("LRU:dom", Store(dom, id, ConstArr(arrSort(SInt, SBool), False())))
		ok := Gt(args[0].T, IntLit(0))
		errV := e.newError(st)
		nilErr := Val{Fs: []Val{{T: IntLit(0)}, {T: IntLit(0)}}}
		return Val{Fs: []Val{{T: Ite(ok, r, IntLit(0))}, iteVal(ok, nilErr, errV)}}, true
	}
	if len(args) < 1 || args[0].T == nil {
		return Val{}, false
	}
	ref := args[0].T
	e.check(fr, st, ins, Ne(ref, IntLit(0)), "nil pointer dereference")
	id := lruID(ref)
	dom := st.heapGet("LRU:dom", domS)
	tags := st.heapGet("LRU:tag", valS)
	vals := st.heapGet("LRU:val", valS)
	keyOf := func(i int) (*Term, bool) {
		if len(args) <= i || len(args[i].Fs) != 2 {
			return nil, false
		}
		return args[i].Fs[1].T, true
	}
	switch strings.TrimPrefix(key, "lru.(*Cache).") {
	case "Add":
		k, ok := keyOf(1)
		if !ok || len(args) < 3 || len(args[2].Fs) != 2 {
			return Val{}, false
		}
		st.heapSet("LRU:dom", Store(dom, id, Store(Select(dom, id), k, True())))
		st.heapSet("LRU:tag", Store(tags, id, Store(Select(tags, id), k, args[2].Fs[0].T)))
		st.heapSet("LRU:val", Store(vals, id, Store(Select(vals, id), k, args[2].Fs[1].T)))
		return scalar(False()), true // evicted: never (no-eviction model)
	case "Get", "Peek":
		k, ok := keyOf(1)
		if !ok {
			return Val{}, false
		}
		has := Select(Select(dom, id), k)
		t := Ite(has, Select(Select(tags, id), k), IntLit(0))
		v := Ite(has, Select(Select(vals, id), k), IntLit(0))
		return Val{Fs: []Val{{Fs: []Val{{T: t}, {T: v}}}, {T: has}}}, true
	case "Contains":
		k, ok := keyOf(1)
		if !ok {
			return Val{}, false
		}
		return scalar(Select(Select(dom, id), k)), true
	case "Remove":
		k, ok := keyOf(1)
		if !ok {
			return Val{}, false
		}
		had := Select(Select(dom, id), k)
		st.heapSet("LRU:dom", Store(dom, id, Store(Select(dom, id), k, False())))
		return scalar(had), true
	case "Purge":
		st.heapSet("LRU:dom", Store(dom, id, ConstArr(arrSort(SInt, SBool), False())))
		return unit, true
	case "Len":
		n := Fresh("lrulen", SInt)
		st.assume(Ge(n, IntLit(0)))
		q := BoundVar("lk", SInt)
		sel := Select(Select(dom, id), q)
		st.assume(Eq(Eq(n, IntLit(0)), Forall([]*Term{q}, Not(sel), sel)))
		return scalar(n), true
	}
	return Val{}, false
}
