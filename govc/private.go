package main

// Private local slices.
//
// If the function under verification makes every value of slice type []T it handles itself (make, append,
// re-slicing, nil), keeps them only in local variables whose address does not escape, and hands them to
// nobody (no call argument other than the append/len/cap/copy builtins, no store into the heap, a map, a
// channel, an interface or a closure), then until it returns no callee can reach the backing arrays of its
// []T variables: a callee's `modifies *` cannot touch their elements. The engine keeps those elements across
// a whole-heap havoc caused by a call. Returning the slice is allowed (the function has ended by then).

import (
	"go/types"

	"golang.org/x/tools/go/ssa"
)

// privateSliceTypes: the slice types for which fn satisfies the rule above.
func privateSliceTypes(fn *ssa.Function) []*types.Slice {
	cand := map[string]*types.Slice{}
	bad := map[string]bool{}
	key := func(t types.Type) (string, *types.Slice) {
		if s, ok := t.Underlying().(*types.Slice); ok && kindOf(t) != kSeq {
			return types.TypeString(t, nil), s
		}
		return "", nil
	}
	localCell := func(v ssa.Value) bool {
		a, ok := v.(*ssa.Alloc)
		return ok && !a.Heap
	}
	// values may only be produced by ...
	produced := func(v ssa.Value) bool {
		switch x := v.(type) {
		case *ssa.MakeSlice, *ssa.Slice, *ssa.Phi:
			return true
		case *ssa.Const:
			return x.Value == nil
		case *ssa.UnOp:
			return localCell(x.X)
		case *ssa.Call:
			if b, ok := x.Call.Value.(*ssa.Builtin); ok && b.Name() == "append" {
				return true
			}
		}
		return false
	}
	// ... and used by
	usedOK := func(v ssa.Value, r ssa.Instruction) bool {
		switch u := r.(type) {
		case *ssa.DebugRef, *ssa.Return, *ssa.Phi, *ssa.Slice:
			return true
		case *ssa.IndexAddr:
			// &s[i] may only be read or written through, not passed on
			if u.Referrers() != nil {
				for _, r2 := range *u.Referrers() {
					switch w := r2.(type) {
					case *ssa.UnOp, *ssa.DebugRef:
					case *ssa.Store:
						if w.Addr != u {
							return false
						}
					default:
						return false
					}
				}
			}
			return true
		case *ssa.Store:
			return u.Val == v && localCell(u.Addr)
		case *ssa.Call:
			if b, ok := u.Call.Value.(*ssa.Builtin); ok {
				switch b.Name() {
				case "append", "len", "cap", "copy":
					return true
				}
			}
		}
		return false
	}
	if len(fn.FreeVars) > 0 {
		return nil
	}
	for _, p := range fn.Params {
		if k, _ := key(p.Type()); k != "" {
			bad[k] = true
		}
	}
	for _, b := range fn.Blocks {
		for _, ins := range b.Instrs {
			v, ok := ins.(ssa.Value)
			if !ok {
				continue
			}
			k, st := key(v.Type())
			if k == "" {
				continue
			}
			cand[k] = st
			if !produced(v) {
				bad[k] = true
				continue
			}
			if v.Referrers() != nil {
				for _, r := range *v.Referrers() {
					if !usedOK(v, r) {
						bad[k] = true
					}
				}
			}
		}
	}
	// a slice-typed cell whose address escapes, or a slice inside a larger local value, is not tracked
	var out []*types.Slice
	for k, st := range cand {
		if !bad[k] {
			out = append(out, st)
		}
	}
	return out
}

// sparePrivate keeps the elements of the top function's private local slices across a havoc of the whole heap.
func (e *Engine) sparePrivate(st *State) func() {
	// the frame of the function under verification on the path being executed (frames are copied when paths fork)
	top := e.callFrame
	for top != nil && top.parent != nil {
		top = top.parent
	}
	if top == nil || top.fn == nil || top.fn != e.curFn {
		return func() {}
	}
	if e.privTypes == nil {
		e.privTypes = map[*ssa.Function][]*types.Slice{}
	}
	pts, ok := e.privTypes[top.fn]
	if !ok {
		pts = privateSliceTypes(top.fn)
		e.privTypes[top.fn] = pts
	}
	if len(pts) == 0 {
		return func() {}
	}
	type keep struct {
		key  string
		sort string
		arr  *Term
		old  *Term
	}
	var ks []keep
	for a, id := range top.cellOf {
		if a.Heap {
			continue
		}
		et := a.Type().Underlying().(*types.Pointer).Elem()
		var sl *types.Slice
		for _, p := range pts {
			if s, ok := et.Underlying().(*types.Slice); ok && types.Identical(s, p) {
				sl = s
			}
		}
		if sl == nil {
			continue
		}
		v, ok := st.cells[id]
		if !ok || len(v.Fs) != 4 || v.Fs[0].T == nil {
			continue
		}
		for _, l := range leaves(sl.Elem()) {
			k := elemKey(sl.Elem(), l.path)
			srt := arrSort(SInt, arrSort(SInt, l.sort))
			if s2, known := heapSorts[k]; known && s2 != srt {
				continue
			}
			noteLeaf(k, l)
			ks = append(ks, keep{k, srt, v.Fs[0].T, Select(st.heapGet(k, srt), v.Fs[0].T)})
		}
	}
	if len(ks) > 0 {
		e.note("private local slices of " + funcKey(top.fn) + " keep their elements across calls (the function never hands a slice of that type to anyone before it returns)")
	}
	return func() {
		for _, k := range ks {
			st.assume(Eq(Select(st.heapGet(k.key, k.sort), k.arr), k.old))
		}
	}
}
