package main

import (
	"fmt"
	"go/types"
	"sort"
	"strings"

	"golang.org/x/tools/go/ssa"
)

// Intrinsics are library functions whose trusted semantics are coded against
// the memory model directly (math/big over BigVal, sync no-ops, error
// constructors). Everything here is part of the trusted base (T3).

var intrinsicKeys = map[string]bool{}

func isIntrinsic(key string) bool {
	if strings.HasPrefix(key, "big.(*Int).") || key == "big.NewInt" {
		return true
	}
	if strings.HasPrefix(key, "sync.") || strings.HasPrefix(key, "atomic.") {
		return true
	}
	if isCallbackIteration(key) || isLruKey(key) {
		return true
	}
	switch key {
	case "fmt.Errorf", "errors.New", "fmt.Sprintf", "fmt.Sprint", "strings.Contains", "strings.HasPrefix", "strings.HasSuffix":
		return true
	}
	return false
}

func intrinsicWrites(key string, ws *writeSet) {
	lruWrites(key, ws)
	if strings.HasPrefix(key, "big.") {
		ws.keys["BigVal"] = true
	}
	if key == "sync.(*Map).Store" || key == "sync.(*Map).Delete" {
		domS, valS := smSorts()
		for k, srt := range map[string]string{"SM:dom": domS, "SM:tag": valS, "SM:val": valS} {
			if _, ok := heapSorts[k]; !ok {
				heapSorts[k] = srt
			}
			ws.keys[k] = true
		}
	}
}

var errorTypeID int64

func (e *Engine) newError(st *State) Val {
	// a non-nil error value of an anonymous dynamic type
	if errorTypeID == 0 {
		errorTypeID = typeID(types.NewNamed(types.NewTypeName(0, nil, "$dynamicError", nil), types.NewStruct(nil, nil), nil))
	}
	r := st.newRef()
	return Val{Fs: []Val{{T: IntLit(errorTypeID)}, {T: r}}}
}

func (e *Engine) intrinsic(fr *Frame, st *State, ins ssa.Instruction, key string, fn *ssa.Function, args []Val, resType types.Type) (Val, bool) {
	if !isIntrinsic(key) {
		return Val{}, false
	}
	if _, has := e.db.Contracts[key]; has {
		return Val{}, false // an explicit spec overrides
	}
	unit := Val{Fs: []Val{}}
	if isCallbackIteration(key) && len(args) >= 2 && args[len(args)-1].Clo != nil {
		return e.callbackIteration(fr, st, ins, key, args), true
	}
	if v, ok := e.syncMapOp(fr, st, ins, key, args, resType); ok {
		return v, true
	}
	if isLruKey(key) {
		if v, ok := e.lruOp(fr, st, ins, key, args, resType); ok {
			return v, true
		}
		unsupp("lru operation %s in this form", key)
	}
	if key == "sync.(*Map).Range" && len(args) == 2 && args[1].Clo != nil {
		if cc := e.closureContract(args[1].Clo.Fn.(*ssa.Function)); cc != nil && len(cc.IterInvs) > 0 {
			if id, ok := syncMapID(args[0]); ok {
				return e.syncMapRange(fr, st, ins, id, args[1].Clo, cc), true
			}
		}
		// the callback runs an unknown number of times: forget everything it may write
		ci := 1
		cfn := args[ci].Clo.Fn.(*ssa.Function)
		ws := newWriteSet()
		sub := &Frame{fn: cfn, cellOf: map[*ssa.Alloc]int{}, free: args[ci].Clo.Bindings}
		e.blocksWrites(sub, cfn.Blocks, ws, fr.depth+1, map[*ssa.Function]bool{cfn: true})
		if ws.all {
			restore := e.spareForWrites(st, ws)
			st.havocAll()
			restore()
		}
		for k := range ws.keys {
			st.havocKey(k)
		}
		for c := range ws.cells {
			if old, ok := st.cells[c]; ok {
				st.cells[c] = e.havocVal(st, old, e.cellType(fr, c))
			}
		}
		return unit, true
	}
	if strings.HasPrefix(key, "sync.") || strings.HasPrefix(key, "atomic.") {
		if tp, ok := resType.(*types.Tuple); ok && tp.Len() == 0 {
			return unit, true
		}
		return st.freshVal("sync", resType), true
	}
	ref := func(i int) *Term { return e.materialize(args[i], types.NewPointer(types.Typ[types.Int])).T }
	nonnil := func(i int, what string) {
		e.check(fr, st, ins, Ne(ref(i), IntLit(0)), "nil *big.Int "+what)
	}
	switch key {
	case "fmt.Errorf", "errors.New":
		return e.newError(st), true
	case "fmt.Sprintf", "fmt.Sprint":
		// deterministic function of the scalar arguments when they are visible (variadic slice of boxed interfaces)
		r := e.sprintf(fr, st, ins, key, fn, args)
		return scalar(r), true
	case "strings.Contains":
		return scalar(App("str_contains", SBool, args[0].T, args[1].T)), true
	case "strings.HasPrefix":
		return scalar(App("str_hasprefix", SBool, args[0].T, args[1].T)), true
	case "strings.HasSuffix":
		return scalar(App("str_hassuffix", SBool, args[0].T, args[1].T)), true
	case "big.NewInt":
		r := st.newRef()
		st.bigSet(r, args[0].T)
		return scalar(r), true
	}
	m := strings.TrimPrefix(key, "big.(*Int).")
	switch m {
	case "Add", "Sub", "Mul":
		nonnil(0, "receiver")
		nonnil(1, "operand")
		nonnil(2, "operand")
		a, b := st.bigGet(ref(1)), st.bigGet(ref(2))
		var v *Term
		switch m {
		case "Add":
			v = Add(a, b)
		case "Sub":
			v = Sub(a, b)
		default:
			v = Mul(a, b)
		}
		st.bigSet(ref(0), v)
		return scalar(ref(0)), true
	case "Div":
		// Euclidean division; panics on zero divisor
		nonnil(0, "receiver")
		nonnil(1, "operand")
		nonnil(2, "operand")
		a, b := st.bigGet(ref(1)), st.bigGet(ref(2))
		e.check(fr, st, ins, Ne(b, IntLit(0)), "big.Int division by zero")
		q := EDiv(a, b)
		if _, lit := b.intVal(); !lit {
			r := EMod(a, b)
			absb := Ite(Ge(b, IntLit(0)), b, Neg(b))
			st.assume(And(Eq(a, Add(Mul(b, q), r)), Ge(r, IntLit(0)), Lt(r, absb)))
		}
		st.bigSet(ref(0), q)
		return scalar(ref(0)), true
	case "Cmp":
		nonnil(0, "receiver")
		nonnil(1, "operand")
		a, b := st.bigGet(ref(0)), st.bigGet(ref(1))
		return scalar(Ite(Lt(a, b), IntLit(-1), Ite(Gt(a, b), IntLit(1), IntLit(0)))), true
	case "Sign":
		nonnil(0, "receiver")
		a := st.bigGet(ref(0))
		return scalar(Ite(Lt(a, IntLit(0)), IntLit(-1), Ite(Gt(a, IntLit(0)), IntLit(1), IntLit(0)))), true
	case "Set":
		nonnil(0, "receiver")
		nonnil(1, "operand")
		st.bigSet(ref(0), st.bigGet(ref(1)))
		return scalar(ref(0)), true
	case "SetUint64", "SetInt64":
		nonnil(0, "receiver")
		st.bigSet(ref(0), args[1].T)
		return scalar(ref(0)), true
	case "Uint64", "Int64":
		nonnil(0, "receiver")
		a := st.bigGet(ref(0))
		return scalar(wrapFull(a, resType)), true
	case "IsUint64":
		nonnil(0, "receiver")
		a := st.bigGet(ref(0))
		return scalar(And(Ge(a, IntLit(0)), Le(a, BigLit(maxU64())))), true
	case "SetString":
		// (z, ok): on ok the value is a function of the string and base; on failure z's value is undefined and nil is returned
		nonnil(0, "receiver")
		ok := App("big_parse_ok", SBool, args[1].T, args[2].T)
		v := App("big_parse", SInt, args[1].T, args[2].T)
		st.bigSet(ref(0), Ite(ok, v, Fresh("big_undef", SInt)))
		return Val{Fs: []Val{{T: Ite(ok, ref(0), IntLit(0))}, {T: ok}}}, true
	case "String":
		nonnil(0, "receiver")
		return scalar(App("big_str", SSeq, st.bigGet(ref(0)))), true
	case "Bytes":
		return scalar(App("big_bytes", SSeq, st.bigGet(ref(0)))), true
	case "SetBytes":
		nonnil(0, "receiver")
		v := App("big_of_bytes", SInt, args[1].T)
		st.assume(Ge(v, IntLit(0)))
		st.bigSet(ref(0), v)
		return scalar(ref(0)), true
	}
	// other big.Int methods: receiver value becomes arbitrary
	if len(args) > 0 && args[0].T != nil {
		st.bigSet(ref(0), Fresh("big_other", SInt))
	}
	e.unspecified[key] = true
	if tp, ok := resType.(*types.Tuple); ok && tp.Len() == 0 {
		return unit, true
	}
	return st.freshVal("r_"+m, resType), true
}

// sprintf models fmt.Sprintf/Sprint as an uninterpreted function of the format and the boxed arguments.
func (e *Engine) sprintf(fr *Frame, st *State, ins ssa.Instruction, key string, fn *ssa.Function, args []Val) *Term {
	var parts []*Term
	vi := 0
	if key == "fmt.Sprintf" {
		parts = append(parts, args[0].T)
		vi = 1
	}
	if vi < len(args) {
		sl := args[vi]
		if n, ok := sl.Fs[2].T.intVal(); ok && n.IsInt64() && n.Int64() <= 8 {
			var ift types.Type = types.NewInterfaceType(nil, nil)
			if ps := fn.Signature.Params(); ps.Len() > 0 {
				if st, ok := ps.At(ps.Len() - 1).Type().Underlying().(*types.Slice); ok {
					ift = st.Elem() // the element type the call site stored through (interface{} vs any)
				}
			}
			for i := int64(0); i < n.Int64(); i++ {
				pl := &Place{Kind: PElem, Ref: sl.Fs[0].T, Idx: Add(sl.Fs[1].T, IntLit(i)), Typ: ift}
				v := st.load(pl)
				parts = append(parts, v.Fs[0].T, v.Fs[1].T)
			}
			name := "sprintf"
			return App(name+"$"+itoa(len(parts)), SSeq, parts...)
		}
	}
	return Fresh("sprintf", SSeq)
}

func itoa(n int) string {
	if n == 0 {
		return "0"
	}
	s := ""
	for n > 0 {
		s = string(rune('0'+n%10)) + s
		n /= 10
	}
	return s
}

// isCallbackIteration: library calls that run a callback an unknown number of times over a collection.
func isCallbackIteration(key string) bool {
	switch key {
	case "btree.(*BTree).Ascend", "btree.(*BTree).AscendGreaterOrEqual", "btree.(*BTree).AscendLessThan", "btree.(*BTree).AscendRange",
		"btree.(*BTree).Descend", "btree.(*BTree).DescendLessOrEqual", "btree.(*BTree).DescendGreaterThan", "btree.(*BTree).DescendRange":
		return true
	}
	return false
}

// callbackIteration models `coll.Ascend...(pivot, f)`: f runs an unknown number of times on arbitrary non-nil items.
// With iteration invariants on the closure's contract (`closure N` + `invariant`), they are proved at the call and
// after one arbitrary run of f from any state satisfying them, and assumed afterwards; without them everything f
// may write is forgotten. The items passed and their order are not modelled (nothing about them may be assumed).
func (e *Engine) callbackIteration(fr *Frame, st *State, ins ssa.Instruction, key string, args []Val) Val {
	clo := args[len(args)-1].Clo
	cfn := clo.Fn.(*ssa.Function)
	cc := e.closureContract(cfn)
	fnKey := funcKey(fr.fn)
	encl := enclosingLoop(fr, ins)
	envOf := func(s *State) *SpecEnv {
		env := e.invEnv(fr, s, encl)
		return env
	}
	var invs, conts, stops []*Clause
	if cc != nil {
		invs, conts, stops = cc.IterInvs, cc.IterCont, cc.IterStop
	}
	for i, inv := range invs {
		g := envOf(st).evalBool(inv.E)
		e.emit(&Obligation{Kind: "inv-init", Fn: fnKey, Label: fmt.Sprintf("callback-%s:%s", shortName(key), orStr(inv.Label, fmt.Sprint(i+1))),
			PC: st.pc, Goal: g, Src: inv.Src, Line: inv.Line, Trace: st.trace})
	}
	// `continuing` clauses: hold while the iteration goes on (the callback ends it by returning false)
	for i, inv := range conts {
		g := envOf(st).evalBool(inv.E)
		e.emit(&Obligation{Kind: "inv-init", Fn: fnKey, Label: fmt.Sprintf("callback-%s:continuing-%s", shortName(key), orStr(inv.Label, fmt.Sprint(i+1))),
			PC: st.pc, Goal: g, Src: inv.Src, Line: inv.Line, Trace: st.trace})
	}
	boolResult := cfn.Signature.Results().Len() == 1 && kindOf(cfn.Signature.Results().At(0).Type()) == kBool
	if (len(conts) > 0 || len(stops) > 0) && (!boolResult || len(invs) == 0) {
		unsupp("continuing / stopped clauses need a callback that returns bool and at least one iteration invariant")
	}
	// forget what the callback may write
	ws := newWriteSet()
	sub := &Frame{fn: cfn, cellOf: map[*ssa.Alloc]int{}, free: clo.Bindings}
	e.blocksWrites(sub, cfn.Blocks, ws, fr.depth+1, map[*ssa.Function]bool{cfn: true})
	if ws.all {
		restore := e.spareForWrites(st, ws)
		st.havocAll()
		restore()
	}
	for k := range ws.keys {
		st.havocKey(k)
	}
	for c := range ws.cells {
		if old, ok := st.cells[c]; ok {
			st.cells[c] = e.havocVal(st, old, e.cellType(fr, c))
		}
	}
	st.rebaseAlloc()
	for _, inv := range invs {
		st.assume(envOf(st).evalBool(inv.E))
	}
	if len(invs) > 0 {
		// one arbitrary run of the callback from this state must re-establish the invariants
		body := st.clone()
		for _, inv := range conts {
			// a run starts only while the iteration goes on
			body.assume(envOf(body).evalBool(inv.E))
		}
		var cargs []Val
		for i := 0; i < cfn.Signature.Params().Len(); i++ {
			pt := cfn.Signature.Params().At(i).Type()
			v := body.freshVal("item", pt)
			if kindOf(pt) == kIface {
				body.assume(Ne(v.Fs[0].T, IntLit(0)))
			}
			cargs = append(cargs, v)
		}
		// `requires` clauses of the closure's contract are ASSUMED of the item handed to the callback (what the
		// collection holds is not modelled; such a clause is an assumption about its content, listed in the evidence)
		if cc != nil && len(cc.Requires) > 0 {
			vars := map[string]SVal{}
			for i := 0; i < cfn.Signature.Params().Len(); i++ {
				vars[cfn.Signature.Params().At(i).Name()] = SVal{V: cargs[i], T: cfn.Signature.Params().At(i).Type()}
			}
			for _, r := range cc.Requires {
				env := envOf(body)
				for k, v := range vars {
					env.vars[k] = v
				}
				env.paramsFirst = true
				body.assume(env.evalBool(r.E))
				e.note("assumed of every item the callback of " + key + " in " + fnKey + " receives: " + r.Src)
			}
		}
		nf := e.newFrame(cfn, fr, cc)
		nf.free = clo.Bindings
		outs := e.execFunc(nf, body, cargs)
		for _, o := range outs {
			if o.panics || o.st.dead {
				continue
			}
			for i, inv := range invs {
				g := envOf(o.st).evalBool(inv.E)
				e.emit(&Obligation{Kind: "inv-step", Fn: fnKey, Label: fmt.Sprintf("callback-%s:%s", shortName(key), orStr(inv.Label, fmt.Sprint(i+1))),
					PC: o.st.pc, Goal: g, Src: inv.Src, Line: inv.Line, Trace: o.st.trace})
			}
			if len(conts) > 0 || len(stops) > 0 {
				goesOn := o.results[0].T
				for i, inv := range conts {
					g := envOf(o.st).evalBool(inv.E)
					e.emit(&Obligation{Kind: "inv-step", Fn: fnKey, Label: fmt.Sprintf("callback-%s:continuing-%s", shortName(key), orStr(inv.Label, fmt.Sprint(i+1))),
						PC: append(append([]*Term{}, o.st.pc...), goesOn), Goal: g, Src: inv.Src, Line: inv.Line, Trace: o.st.trace})
				}
				for i, inv := range stops {
					g := envOf(o.st).evalBool(inv.E)
					e.emit(&Obligation{Kind: "inv-step", Fn: fnKey, Label: fmt.Sprintf("callback-%s:stopped-%s", shortName(key), orStr(inv.Label, fmt.Sprint(i+1))),
						PC: append(append([]*Term{}, o.st.pc...), Not(goesOn)), Goal: g, Src: inv.Src, Line: inv.Line, Trace: o.st.trace})
				}
			}
		}
		if len(conts) > 0 || len(stops) > 0 {
			// after the call: the iteration ran out (every `continuing` clause holds) or a run ended it (every `stopped` clause holds)
			var cs, ss []*Term
			for _, inv := range conts {
				cs = append(cs, envOf(st).evalBool(inv.E))
			}
			for _, inv := range stops {
				ss = append(ss, envOf(st).evalBool(inv.E))
			}
			st.assume(Or(And(cs...), And(ss...)))
		}
	} else {
		e.note("callback of " + key + " in " + fnKey + " has no iteration invariant: everything it may write is forgotten")
	}
	return Val{Fs: []Val{}}
}

// ---------------------------------------------------------------------
// sync.Map as a finite map (Load / Store / Delete). A sync.Map is identified by the object that embeds it
// and the field path (maps held in local variables are not modelled). Keys are compared by their interface
// payload (one key type per map is assumed, which holds for every sync.Map in /repo); Range stays an
// unknown number of callback runs and a struct assignment `m = sync.Map{}` is NOT seen by the model.

func smSorts() (string, string) {
	return arrSort(SInt, arrSort(SInt, SBool)), arrSort(SInt, arrSort(SInt, SInt))
}

var smFieldIDs = map[string]int64{}

// smFieldID numbers (struct type, field path) pairs.
func smFieldID(name string) *Term {
	id, ok := smFieldIDs[name]
	if !ok {
		id = int64(len(smFieldIDs) + 1)
		smFieldIDs[name] = id
	}
	return IntLit(id)
}

// smid(object, field number) is injective (axioms in builtinAxioms): different objects or fields are different maps.
func smID(ref *Term, field string) *Term { return App("smid", SInt, ref, smFieldID(field)) }

func syncMapID(v Val) (*Term, bool) {
	if v.P != nil && v.P.Kind == PField && v.P.Ref != nil {
		return smID(v.P.Ref, typeKey(v.P.Typ)+pathString(v.P.Typ, v.P.Path)), true
	}
	if v.P == nil && v.T != nil {
		return smID(v.T, "*"), true
	}
	return nil, false
}

func (e *Engine) syncMapOp(fr *Frame, st *State, ins ssa.Instruction, key string, args []Val, resType types.Type) (Val, bool) {
	switch key {
	case "sync.(*Map).Load", "sync.(*Map).Store", "sync.(*Map).Delete":
	default:
		return Val{}, false
	}
	id, ok := syncMapID(args[0])
	if !ok || len(args) < 2 || len(args[1].Fs) != 2 {
		return Val{}, false
	}
	domS, valS := smSorts()
	k := args[1].Fs[1].T
	dom := st.heapGet("SM:dom", domS)
	tags := st.heapGet("SM:tag", valS)
	vals := st.heapGet("SM:val", valS)
	switch key {
	case "sync.(*Map).Load":
		has := Select(Select(dom, id), k)
		t := Ite(has, Select(Select(tags, id), k), IntLit(0))
		v := Ite(has, Select(Select(vals, id), k), IntLit(0))
		return Val{Fs: []Val{{Fs: []Val{{T: t}, {T: v}}}, {T: has}}}, true
	case "sync.(*Map).Store":
		if len(args) < 3 || len(args[2].Fs) != 2 {
			return Val{}, false
		}
		st.heapSet("SM:dom", Store(dom, id, Store(Select(dom, id), k, True())))
		st.heapSet("SM:tag", Store(tags, id, Store(Select(tags, id), k, args[2].Fs[0].T)))
		st.heapSet("SM:val", Store(vals, id, Store(Select(vals, id), k, args[2].Fs[1].T)))
		return Val{Fs: []Val{}}, true
	case "sync.(*Map).Delete":
		st.heapSet("SM:dom", Store(dom, id, Store(Select(dom, id), k, False())))
		return Val{Fs: []Val{}}, true
	}
	return Val{}, false
}

// syncMapRange models m.Range(f) for a sync.Map of the finite-map model when the callback carries iteration
// invariants (`closure N` + `invariant`, which may use visited(k) - key k has been handed to f). The invariants are
// proved for the empty visited set at the call and after one arbitrary run of f on an arbitrary key of the map that
// has not been visited, from any state satisfying them; afterwards they are assumed, together with "every key of the
// map has been visited" when f returns true on every path (Range stops at the first false). Assumes the callback
// does not store or delete in the map it ranges over (a key stored concurrently may or may not be visited in Go).
func (e *Engine) syncMapRange(fr *Frame, st *State, ins ssa.Instruction, id *Term, clo *Closure, cc *Contract) Val {
	cfn := clo.Fn.(*ssa.Function)
	fnKey := funcKey(fr.fn)
	domS, valS := smSorts()
	vcell := e.newCell(st, scalar(ConstArr(arrSort(SInt, SBool), False())))
	encl := enclosingLoop(fr, ins)
	envOf := func(s *State) *SpecEnv {
		env := e.invEnv(fr, s, encl)
		env.rngCell = vcell
		return env
	}
	invs := cc.IterInvs
	for i, inv := range invs {
		g := envOf(st).evalBool(inv.E)
		e.emit(&Obligation{Kind: "inv-init", Fn: fnKey, Label: fmt.Sprintf("callback-Range:%s", orStr(inv.Label, fmt.Sprint(i+1))),
			PC: st.pc, Goal: g, Src: inv.Src, Line: inv.Line, Trace: st.trace})
	}
	ws := newWriteSet()
	sub := &Frame{fn: cfn, cellOf: map[*ssa.Alloc]int{}, free: clo.Bindings}
	e.blocksWrites(sub, cfn.Blocks, ws, fr.depth+1, map[*ssa.Function]bool{cfn: true})
	auto := e.callbackAutoFrame(st, ws, fnKey, "Range")
	if ws.all {
		restore := e.spareForWrites(st, ws)
		st.havocAll()
		restore()
	}
	for k := range ws.keys {
		st.havocKey(k)
	}
	for c := range ws.cells {
		if old, ok := st.cells[c]; ok {
			st.cells[c] = e.havocVal(st, old, e.cellType(fr, c))
		}
	}
	st.cells[vcell] = scalar(Fresh("smvisited", arrSort(SInt, SBool)))
	st.rebaseAlloc()
	for _, k := range auto {
		st.assume(e.frameGoal(st, k))
	}
	for _, inv := range invs {
		st.assume(envOf(st).evalBool(inv.E))
	}
	// one arbitrary run on an unvisited key of the map
	body := st.clone()
	k := Fresh("smk", SInt)
	dom := body.heapGet("SM:dom", domS)
	body.assume(Select(Select(dom, id), k))
	body.assume(Not(Select(body.cells[vcell].T, k)))
	ktag := Fresh("smktag", SInt)
	body.assume(Ne(ktag, IntLit(0)))
	// a key whose dynamic type is string / uint64 is the box of the value it unboxes to
	body.assume(Implies(Eq(ktag, IntLit(typeID(types.Typ[types.String]))), Eq(k, App("box_seq", SInt, App("unbox_seq", SSeq, k)))))
	body.assume(Implies(Eq(ktag, IntLit(typeID(types.Typ[types.Uint64]))), Eq(k, App("box_int", SInt, App("unbox_int", SInt, k)))))
	kv := Val{Fs: []Val{{T: ktag}, {T: k}}}
	vv := Val{Fs: []Val{{T: Select(Select(body.heapGet("SM:tag", valS), id), k)}, {T: Select(Select(body.heapGet("SM:val", valS), id), k)}}}
	domBefore := Select(dom, id)
	nf := e.newFrame(cfn, fr, cc)
	nf.free = clo.Bindings
	outs := e.execFunc(nf, body, []Val{kv, vv})
	alwaysTrue := true
	for _, o := range outs {
		if o.panics || o.st.dead {
			continue
		}
		if len(o.results) != 1 || o.results[0].T == nil || o.results[0].T.String() != True().String() {
			alwaysTrue = false
		}
		// the callback must not change which keys the ranged map holds
		e.emit(&Obligation{Kind: "inv-step", Fn: fnKey, Label: "callback-Range:ranged-map-keeps-its-keys",
			PC: o.st.pc, Goal: Eq(Select(o.st.heapGet("SM:dom", domS), id), domBefore), Trace: o.st.trace})
		o.st.cells[vcell] = scalar(Store(o.st.cells[vcell].T, k, True()))
		for _, ak := range auto {
			e.emit(&Obligation{Kind: "inv-step", Fn: fnKey, Label: fmt.Sprintf("callback-Range:auto-frame:%s", shortHeapKey(ak)), PC: o.st.pc, Goal: e.frameGoal(o.st, ak),
				Src: "frame of the function is preserved by the callback for " + ak, Trace: o.st.trace})
		}
		for i, inv := range invs {
			g := envOf(o.st).evalBool(inv.E)
			e.emit(&Obligation{Kind: "inv-step", Fn: fnKey, Label: fmt.Sprintf("callback-Range:%s", orStr(inv.Label, fmt.Sprint(i+1))),
				PC: o.st.pc, Goal: g, Src: inv.Src, Line: inv.Line, Trace: o.st.trace})
		}
	}
	if alwaysTrue {
		q := BoundVar("smq", SInt)
		sel := Select(Select(st.heapGet("SM:dom", domS), id), q)
		st.assume(Forall([]*Term{q}, Implies(sel, Select(st.cells[vcell].T, q)), sel))
	} else {
		e.note("callback of sync.Map.Range in " + fnKey + " may return false: nothing is assumed about which keys were visited")
	}
	return Val{Fs: []Val{}}
}

// enclosingLoop is the innermost loop of the frame's function that contains the instruction (nil: none), so that
// iteration invariants of a callback may use entry(e), #i and visited(k) of the loop the call stands in.
func enclosingLoop(fr *Frame, ins ssa.Instruction) *Loop {
	if ins == nil || fr == nil {
		return nil
	}
	var best *Loop
	for _, l := range fr.loops {
		if l.Blocks[ins.Block()] && (best == nil || len(l.Blocks) < len(best.Blocks)) {
			best = l
		}
	}
	return best
}

// callbackAutoFrame: heap components the function's own frame does not allow it to change are preserved by every run of
// a callback, like by every loop: proved at the call (inv-init), assumed after the havoc, proved again after one
// arbitrary run (inv-step, emitted by the caller through the returned keys).
func (e *Engine) callbackAutoFrame(st *State, ws *writeSet, fnKey, what string) []string {
	var auto []string
	if ws.all {
		return nil
	}
	var ks []string
	for k := range ws.keys {
		ks = append(ks, k)
	}
	sort.Strings(ks)
	for _, k := range ks {
		if e.frameProtected(k) {
			if _, known := heapSorts[k]; known {
				e.emit(&Obligation{Kind: "inv-init", Fn: fnKey, Label: fmt.Sprintf("callback-%s:auto-frame:%s", what, shortHeapKey(k)), PC: st.pc, Goal: e.frameGoal(st, k),
					Src: "frame of the function holds at the call for " + k, Trace: st.trace})
				auto = append(auto, k)
			}
		}
	}
	return auto
}
