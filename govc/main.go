package main

import (
	_ "golang.org/x/tools/go/packages"
	_ "golang.org/x/tools/go/ssa"
	_ "golang.org/x/tools/go/ssa/ssautil"
)

func main() {}
