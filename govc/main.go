package main

import (
	"fmt"
	"go/types"
	"os"
	"runtime/pprof"
	"time"
)

func usage() {
	fmt.Fprintln(os.Stderr, `usage:
  govc ssa <pkg> <func>            dump NaiveForm SSA
  govc check <property> [--tier quick|thorough]
  govc verify <pkg>... [--func name] debugging: verify all contracts in packages`)
	os.Exit(2)
}

var profStop = func() {}

func main() {
	if len(os.Args) < 2 {
		usage()
	}
	if pf := os.Getenv("GOVC_PROF"); pf != "" {
		// development aid: CPU profile of the generator itself
		if f, err := os.Create(pf); err == nil {
			_ = pprof.StartCPUProfile(f)
			go func() {
				time.Sleep(600 * time.Second)
				pprof.StopCPUProfile()
			}()
			profStop = func() { pprof.StopCPUProfile(); f.Close() }
		}
	}
	switch os.Args[1] {
	case "ssa":
		if len(os.Args) < 4 {
			usage()
		}
		w, err := loadWorld([]string{os.Args[2]}, nil)
		if err != nil {
			fmt.Fprintln(os.Stderr, err)
			os.Exit(2)
		}
		dumpSSA(w, repoMod+"/"+os.Args[2], os.Args[3])
	case "surface":
		w, err := loadWorld([]string{"internal/executor/contracts", "internal/executor", "pkg/vm/boltvm"}, nil)
		if err != nil {
			fmt.Fprintln(os.Stderr, err)
			os.Exit(2)
		}
		db, err := loadSpecs(w, "/verif/trusted", nil)
		if err != nil {
			fmt.Fprintln(os.Stderr, err)
			os.Exit(2)
		}
		e := newEngine(w, db)
		ms, err := e.enumerateSurface()
		if err != nil {
			fmt.Fprintln(os.Stderr, err)
			os.Exit(2)
		}
		for _, m := range ms {
			if !m.Callable || !m.Dispatch {
				continue
			}
			p := w.Fset.Position(m.Fn.Pos())
			acc := ""
			if c := db.Contracts["contracts.(*"+m.T.Obj().Name()+")."+m.Name]; c != nil {
				acc = c.Access
			}
			fmt.Printf("%s\t%s\tpromoted=%v\t%s:%d\t%s\t[%s]\n", m.T.Obj().Name(), m.Name, m.Promoted, p.Filename, p.Line, m.Fn.Type().(*types.Signature).Params(), acc)
		}
	case "mutants":
		os.Exit(cmdMutants(os.Args[2:]))
	case "check":
		rc := cmdCheck(os.Args[2:])
		profStop()
		os.Exit(rc)
	default:
		usage()
	}
}
