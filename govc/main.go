package main

import (
	"fmt"
	"os"
)

func usage() {
	fmt.Fprintln(os.Stderr, `usage:
  govc ssa <pkg> <func>            dump NaiveForm SSA
  govc check <property> [--tier quick|thorough]
  govc verify <pkg>... [--func name] debugging: verify all contracts in packages`)
	os.Exit(2)
}

func main() {
	if len(os.Args) < 2 {
		usage()
	}
	switch os.Args[1] {
	case "ssa":
		if len(os.Args) < 4 {
			usage()
		}
		w, err := loadWorld([]string{os.Args[2]}, nil)
		if err != nil {
			fmt.Fprintln(os.Stderr, err)
			os.Exit(2)
		}
		dumpSSA(w, repoMod+"/"+os.Args[2], os.Args[3])
	case "mutants":
		os.Exit(cmdMutants(os.Args[2:]))
	case "check":
		os.Exit(cmdCheck(os.Args[2:]))
	default:
		usage()
	}
}
