package main

import (
	"go/types"

	"golang.org/x/tools/go/ssa"
)

// Trusted model of looplab/fsm v0.2.0 (NewFSM / Event / Current), coded against the memory model
// so that the transition table is the one the real code builds (read out of the symbolic heap
// after executing the fsm.Events{...} literal), not a copy:
//   Event(e) looks up transitions[(e, current)] (later table rows override earlier ones with the
//   same event and source); no row -> error, nothing changes; dst == current -> the after-event
//   callback runs and an error is returned; otherwise current := dst, then the callback registered
//   under the event's name (an after_<event> callback) runs, and nil is returned.
// Callbacks named enter_/leave_/before_ are not modelled (none are used in /repo).

type fsmRow struct {
	name *Term
	srcs []*Term
	dst  *Term
}

type fsmModel struct {
	rows      []fsmRow
	callbacks *Term // map ref
	cbKeys    []*Term
	cbClo     *Closure
	cbMixed   bool
}

type cloEntry struct {
	key *Term
	clo *Closure
}

func (e *Engine) fsmIntrinsic(fr *Frame, st *State, ins ssa.Instruction, key string, args []Val, resType types.Type) (Val, []*State, bool) {
	switch key {
	case "fsm.NewFSM":
		events := args[1]
		n, ok := events.Fs[2].T.intVal()
		if !ok || !n.IsInt64() || n.Int64() > 64 {
			return Val{}, nil, false
		}
		var et types.Type
		if fn, ok := ins.(*ssa.Call); ok {
			et = fn.Call.Args[1].Type().Underlying().(*types.Slice).Elem()
		} else {
			return Val{}, nil, false
		}
		m := &fsmModel{}
		for i := int64(0); i < n.Int64(); i++ {
			pl := &Place{Kind: PElem, Ref: events.Fs[0].T, Idx: Add(events.Fs[1].T, IntLit(i)), Typ: et}
			row := st.load(pl)
			stt := et.Underlying().(*types.Struct)
			var r fsmRow
			for fi := 0; fi < stt.NumFields(); fi++ {
				switch stt.Field(fi).Name() {
				case "Name":
					r.name = row.Fs[fi].T
				case "Dst":
					r.dst = row.Fs[fi].T
				case "Src":
					sv := row.Fs[fi]
					sn, ok := sv.Fs[2].T.intVal()
					if !ok || !sn.IsInt64() || sn.Int64() > 32 {
						return Val{}, nil, false
					}
					for j := int64(0); j < sn.Int64(); j++ {
						sp := &Place{Kind: PElem, Ref: sv.Fs[0].T, Idx: Add(sv.Fs[1].T, IntLit(j)), Typ: types.Typ[types.String]}
						r.srcs = append(r.srcs, st.load(sp).T)
					}
				}
			}
			m.rows = append(m.rows, r)
		}
		m.callbacks = args[2].T
		for _, ce := range st.mapClos[args[2].T.id] {
			m.cbKeys = append(m.cbKeys, ce.key)
			if m.cbClo == nil {
				m.cbClo = ce.clo
			} else if m.cbClo.Fn != ce.clo.Fn {
				m.cbMixed = true
			}
		}
		r := st.newRef()
		if st.fsms == nil {
			st.fsms = map[int]*fsmModel{}
		}
		st.fsms[r.id] = m
		cur := st.heapGet("G:$FsmCur", arrSort(SInt, SSeq))
		st.heapSet("G:$FsmCur", Store(cur, r, args[0].T))
		e.note("looplab/fsm modelled by the govc intrinsic (trusted semantics of NewFSM/Event/Current, table read from the executed literal)")
		return scalar(r), nil, true
	case "fsm.(*FSM).Current":
		cur := st.heapGet("G:$FsmCur", arrSort(SInt, SSeq))
		return scalar(Select(cur, args[0].T)), nil, true
	case "fsm.(*FSM).Event":
		m := st.fsms[args[0].T.id]
		if m == nil || m.cbMixed {
			return Val{}, nil, false
		}
		f := args[0].T
		ev := args[1].T
		curArr := st.heapGet("G:$FsmCur", arrSort(SInt, SSeq))
		cur := Select(curArr, f)
		ok := False()
		dst := cur
		for _, r := range m.rows { // later rows override earlier ones
			var anySrc []*Term
			for _, s := range r.srcs {
				anySrc = append(anySrc, Eq(cur, s))
			}
			c := And(Eq(ev, r.name), Or(anySrc...))
			ok = Or(c, ok)
			dst = Ite(c, r.dst, dst)
		}
		hasCb := False()
		for _, k := range m.cbKeys {
			hasCb = Or(hasCb, Eq(ev, k))
		}
		errV := e.newError(st)
		nilErr := Val{Fs: []Val{{T: IntLit(0)}, {T: IntLit(0)}}}
		res := Val{Fs: []Val{{T: Fresh("fsm_err_tag", SInt)}, {T: Fresh("fsm_err_val", SInt)}}}
		var outs []*State
		// case A: no transition for (event, current)
		sA := st.clone()
		sA.assume(Not(ok))
		sA.assume(eqVal(res, errV))
		outs = append(outs, sA)
		// case B: transition found (dst may equal current: then an error is returned after the callback)
		run := func(sB *State, withCb bool) []*State {
			same := Eq(dst, cur)
			sB.heapSet("G:$FsmCur", Store(sB.heapGet("G:$FsmCur", arrSort(SInt, SSeq)), f, dst))
			sB.assume(eqVal(res, iteVal(same, errV, nilErr)))
			if !withCb || m.cbClo == nil {
				return []*State{sB}
			}
			cfn := m.cbClo.Fn.(*ssa.Function)
			// the *fsm.Event handed to the callback: only its FSM field is modelled
			evT := cfn.Params[0].Type()
			evObj := sB.allocObject(evT.Underlying().(*types.Pointer).Elem())
			est := evT.Underlying().(*types.Pointer).Elem().Underlying().(*types.Struct)
			for fi := 0; fi < est.NumFields(); fi++ {
				if est.Field(fi).Name() == "FSM" {
					sB.store(&Place{Kind: PField, Ref: evObj, Typ: evT.Underlying().(*types.Pointer).Elem(), Path: []int{fi}}, scalar(f))
				}
			}
			_, sts := e.inline(fr, sB, cfn, m.cbClo.Bindings, nil, []Val{scalar(evObj)}, types.NewTuple())
			if sts == nil {
				return []*State{sB}
			}
			return sts
		}
		sB1 := st.clone()
		sB1.assume(ok)
		sB1.assume(hasCb)
		outs = append(outs, run(sB1, true)...)
		sB2 := st
		sB2.assume(ok)
		sB2.assume(Not(hasCb))
		outs = append(outs, run(sB2, false)...)
		// original state object first
		for i, s := range outs {
			if s == st {
				outs[0], outs[i] = outs[i], outs[0]
			}
		}
		e.paths += len(outs) - 1
		return res, outs, true
	}
	return Val{}, nil, false
}
