package main

import (
	"fmt"
	"os"
	"path/filepath"
	"regexp"
	"sort"
	"strconv"
	"strings"
	"unicode"
)

// ---------------------------------------------------------------------
// Contract model

type Clause struct {
	Label string
	Src   string
	E     Expr
	Line  string // file:line
	Props []string
	// Assumed: an `assumes` clause - callers may rely on it, the body is not checked against it (an assumption
	// about what the function computes, e.g. in terms of an uninterpreted abstraction; listed in the evidence)
	Assumed bool
}

type LoopSpec struct {
	Ordinal int
	Header  string // expected header text (prefix match after whitespace normalisation)
	Invs    []*Clause
	Line    string
}

type Contract struct {
	Key       string   // e.g. executor.(*BlockExecutor).transfer  or  ledger.StateLedger.GetBalance
	Params    []string // optional positional names
	Props     []string
	Requires  []*Clause
	Ensures   []*Clause
	Modifies  []string
	HasMod    bool
	NoPanic   bool
	Inline    bool
	Pure      bool
	Trusted   bool // from /verif/trusted (never verified against a body)
	Loops     map[int]*LoopSpec
	Closures  map[int]*Contract // closure ordinal -> contract (invariants etc.)
	IterInvs  []*Clause         // closure contracts: iteration invariants of the call that runs the callback
	IterCont  []*Clause         // ... that hold while the iteration goes on (at the call and after every run that returns true)
	IterStop  []*Clause         // ... that hold after a run that returns false (the iteration stops there)
	File      string
	Line      int
	Witnesses map[string]string
	Notes     []string
	Reads     []string
	Abstract  bool // body not verified here although in /repo ("assumed" contract, reported)
	Sets      []*SetClause
	Allocates int    // objects the callee may allocate besides its results (fresh(x) in ensures refers to them)
	Access    string // dispatch class (surface sweep)
	// Unreachable: source text of return statements that may be dead under the contracts in force (vacuity guard)
	Unreachable []string
}

// SetClause is a ghost assignment performed at function exit: Ghost := Expr (Expr over old state, parameters and results).
type SetClause struct {
	Ghost string
	E     Expr
	Src   string
	Line  string
}

type GhostVar struct {
	Name string
	Type string // int | bool | Seq | Ref | map[K]V | set[K]
}

type GhostFunc struct {
	Name   string
	Params [][2]string // name, type
	Ret    string
	Body   Expr // nil => uninterpreted
}

type Axiom struct {
	Label string
	E     Expr
	Src   string
	File  string
}

type SpecDB struct {
	Contracts map[string]*Contract
	Ghosts    map[string]*GhostVar
	Funcs     map[string]*GhostFunc
	Axioms    []*Axiom
	KeySpaces []*KeySpace
	Confined  []string // write-confined unexported fields (confined.go)
	CallSites []*CallSiteRule
	Files     []string
}

// KeySpace: a family of byte-string keys built as prefix ++ anything, plus exact keys. The directive is
// checked when read (no prefix is a prefix of another prefix or of an exact key), so that "keys of
// different families differ" is a fact about the literals, not an assumption.
type KeySpace struct {
	Name     string
	Prefixes []string
	Exact    []string
	File     string
}

func newSpecDB() *SpecDB {
	return &SpecDB{Contracts: map[string]*Contract{}, Ghosts: map[string]*GhostVar{}, Funcs: map[string]*GhostFunc{}}
}

var labelRe = regexp.MustCompile(`^([a-zA-Z][a-zA-Z0-9_\-]*):\s+(.*)$`)

var keywords = map[string]bool{"channel": true, "func": true, "interface": true, "props": true, "requires": true, "ensures": true,
	"modifies": true, "nopanic": true, "inline": true, "pure": true, "loop": true, "closure": true, "invariant": true,
	"ghost": true, "allocates": true, "like": true, "sets": true, "axiom": true, "note": true, "reads": true, "abstract": true, "end": true, "access": true, "keyspace": true, "confined": true, "callsites": true, "unreachable": true, "assumes": true, "continuing": true, "stopped": true}

// parseSpecFile reads //@ lines (or bare lines in .spec files) into the db.
// pkgShort qualifies unqualified function keys.
func (db *SpecDB) parseSpecFile(path string, src []byte, pkgShort string, trusted bool) error {
	db.Files = append(db.Files, path)
	type line struct {
		no   int
		text string
	}
	var lines []line
	isSpec := strings.HasSuffix(path, ".spec")
	for i, raw := range strings.Split(string(src), "\n") {
		t := strings.TrimSpace(raw)
		if isSpec {
			if strings.HasPrefix(t, "//@") {
				t = strings.TrimSpace(t[3:])
			} else if strings.HasPrefix(t, "#") || strings.HasPrefix(t, "//") {
				continue
			}
		} else {
			if !strings.HasPrefix(t, "//@") {
				continue
			}
			t = strings.TrimSpace(t[3:])
		}
		if t == "" {
			continue
		}
		lines = append(lines, line{i + 1, t})
	}
	// join continuation lines: a line whose first word is not a keyword continues the previous one
	var joined []line
	for _, l := range lines {
		w := l.text
		if i := strings.IndexAny(w, " \t("); i >= 0 {
			w = w[:i]
		}
		if !keywords[w] && len(joined) > 0 {
			joined[len(joined)-1].text += " " + l.text
			continue
		}
		joined = append(joined, l)
	}
	var cur *Contract     // function-level contract
	var tgt *Contract     // current target for clauses (function or closure)
	var curLoop *LoopSpec // current loop for invariants
	for _, l := range joined {
		word, rest := l.text, ""
		if i := strings.IndexAny(l.text, " \t"); i >= 0 {
			word, rest = l.text[:i], strings.TrimSpace(l.text[i+1:])
		}
		loc := fmt.Sprintf("%s:%d", path, l.no)
		mkClause := func(s string) (*Clause, error) {
			c := &Clause{Src: s, Line: loc}
			if m := labelRe.FindStringSubmatch(s); m != nil && !strings.HasPrefix(m[2], ":") {
				c.Label, s = m[1], m[2]
			}
			e, err := parseExpr(s)
			if err != nil {
				return nil, fmt.Errorf("%s: %v in %q", loc, err, s)
			}
			c.E = e
			c.Src = s
			return c, nil
		}
		switch word {
		case "func", "interface", "channel":
			key := rest
			var params []string
			if i := strings.LastIndex(rest, "("); i > 0 && strings.HasSuffix(rest, ")") && !strings.HasPrefix(rest[i:], "(*") {
				key = strings.TrimSpace(rest[:i])
				for _, p := range strings.Split(rest[i+1:len(rest)-1], ",") {
					if p = strings.TrimSpace(p); p != "" {
						params = append(params, p)
					}
				}
			}
			_ = pkgShort
			if word == "channel" {
				key = "chan:" + key
			}
			if old, ok := db.Contracts[key]; ok {
				if old.Trusted != trusted {
					return fmt.Errorf("%s: contract for %s both trusted and in /repo (first at %s:%d)", loc, key, old.File, old.Line)
				}
				cur = old // a second block for the same function adds clauses (e.g. access class here, functional clauses there)
			} else {
				cur = &Contract{Key: key, Params: params, Trusted: trusted, Loops: map[int]*LoopSpec{}, Closures: map[int]*Contract{}, File: path, Line: l.no, Witnesses: map[string]string{}}
				db.Contracts[key] = cur
			}
			tgt, curLoop = cur, nil
		case "props":
			if cur == nil {
				return fmt.Errorf("%s: props outside func", loc)
			}
			cur.Props = append(cur.Props, strings.Fields(rest)...)
		case "requires", "ensures", "assumes":
			if tgt == nil {
				return fmt.Errorf("%s: clause outside func", loc)
			}
			// optional per-clause property list: ensures [C14,C07] label: expr
			var props []string
			if strings.HasPrefix(rest, "[") {
				j := strings.Index(rest, "]")
				// property ids separated by commas and/or blanks
				props = strings.FieldsFunc(rest[1:j], func(r rune) bool { return r == ',' || r == ' ' || r == '\t' })
				rest = strings.TrimSpace(rest[j+1:])
			}
			c, err := mkClause(rest)
			if err != nil {
				return err
			}
			c.Props = props
			if word == "requires" {
				tgt.Requires = append(tgt.Requires, c)
			} else {
				c.Assumed = word == "assumes"
				tgt.Ensures = append(tgt.Ensures, c)
			}
		case "modifies":
			if tgt == nil {
				return fmt.Errorf("%s: modifies outside func", loc)
			}
			tgt.HasMod = true
			for _, m := range strings.Split(rest, ",") {
				if m = strings.TrimSpace(m); m != "" && m != "nothing" && !contains(tgt.Modifies, m) {
					tgt.Modifies = append(tgt.Modifies, m)
				}
			}
		case "reads":
			tgt.Reads = append(tgt.Reads, rest)
		case "nopanic":
			tgt.NoPanic = true
		case "inline":
			tgt.Inline = true
		case "abstract":
			tgt.Abstract = true
		case "pure":
			tgt.Pure = true
			tgt.HasMod = true
		case "note":
			tgt.Notes = append(tgt.Notes, rest)
		case "loop":
			if tgt == nil {
				return fmt.Errorf("%s: loop outside func", loc)
			}
			f := strings.SplitN(rest, " ", 2)
			n, err := strconv.Atoi(f[0])
			if f[0] == "*" {
				n, err = 0, nil // default invariants for every loop without its own block
			}
			if err != nil {
				return fmt.Errorf("%s: loop ordinal: %v", loc, err)
			}
			hdr := ""
			if len(f) > 1 {
				hdr = strings.Trim(strings.TrimSpace(f[1]), `"`)
			}
			curLoop = &LoopSpec{Ordinal: n, Header: hdr, Line: loc}
			tgt.Loops[n] = curLoop
		case "closure":
			if cur == nil {
				return fmt.Errorf("%s: closure outside func", loc)
			}
			n, err := strconv.Atoi(strings.Fields(rest)[0])
			if err != nil {
				return fmt.Errorf("%s: closure ordinal: %v", loc, err)
			}
			cc := &Contract{Key: fmt.Sprintf("%s$%d", cur.Key, n), Loops: map[int]*LoopSpec{}, Closures: map[int]*Contract{}, File: path, Line: l.no, Witnesses: map[string]string{}}
			cur.Closures[n] = cc
			tgt, curLoop = cc, nil
		case "end":
			tgt, curLoop = cur, nil
		case "invariant":
			if curLoop == nil {
				// directly under `closure N`: an iteration invariant of the library call that runs the callback
				// (btree Ascend*, sync.Map.Range): holds before the first run and after every run
				if tgt != nil && tgt != cur {
					c, err := mkClause(rest)
					if err != nil {
						return err
					}
					tgt.IterInvs = append(tgt.IterInvs, c)
					break
				}
				return fmt.Errorf("%s: invariant outside loop", loc)
			}
			c, err := mkClause(rest)
			if err != nil {
				return err
			}
			curLoop.Invs = append(curLoop.Invs, c)
		case "continuing", "stopped":
			// under `closure N` (a callback that ends the iteration by returning false): `continuing` holds at the call and
			// after every run that returns true, and is assumed before a run; `stopped` holds after a run that returns false.
			// After the call: the invariants, and (all `continuing` clauses or all `stopped` clauses).
			if tgt == nil || tgt == cur || curLoop != nil {
				return fmt.Errorf("%s: %s belongs directly under `closure N`", loc, word)
			}
			c, err := mkClause(rest)
			if err != nil {
				return err
			}
			if word == "continuing" {
				tgt.IterCont = append(tgt.IterCont, c)
			} else {
				tgt.IterStop = append(tgt.IterStop, c)
			}
		case "ghost":
			f := strings.SplitN(rest, " ", 2)
			if len(f) < 2 {
				return fmt.Errorf("%s: bad ghost decl", loc)
			}
			switch f[0] {
			case "var":
				g := strings.SplitN(strings.TrimSpace(f[1]), " ", 2)
				if len(g) != 2 {
					return fmt.Errorf("%s: ghost var NAME TYPE", loc)
				}
				db.Ghosts[g[0]] = &GhostVar{Name: g[0], Type: strings.TrimSpace(g[1])}
			case "func":
				gf, err := parseGhostFunc(f[1])
				if err != nil {
					return fmt.Errorf("%s: %v", loc, err)
				}
				db.Funcs[gf.Name] = gf
			default:
				return fmt.Errorf("%s: ghost var|func", loc)
			}
		case "callsites":
			// callsites <Cxx> <method or function name> in <package name> only <func key> | <func key> ...
			fs := strings.Fields(rest)
			i := strings.Index(rest, " only ")
			if len(fs) < 6 || i < 0 || fs[2] != "in" || fs[4] != "only" {
				return fmt.Errorf("%s: callsites <property> <name> in <package name> only <function key> | ...", loc)
			}
			r := &CallSiteRule{Prop: fs[0], Name: fs[1], Pkg: fs[3], File: loc}
			for _, k := range strings.Split(rest[i+len(" only "):], "|") {
				if k = strings.TrimSpace(k); k != "" {
					r.Only = append(r.Only, k)
				}
			}
			db.CallSites = append(db.CallSites, r)
		case "confined":
			for _, f := range strings.Split(rest, ",") {
				if f = strings.TrimSpace(f); f != "" && !contains(db.Confined, f) {
					db.Confined = append(db.Confined, f)
				}
			}
		case "keyspace":
			ks, err := parseKeySpace(rest)
			if err != nil {
				return fmt.Errorf("%s: %v", loc, err)
			}
			ks.File = loc
			db.KeySpaces = append(db.KeySpaces, ks)
		case "axiom":
			c, err := mkClause(rest)
			if err != nil {
				return err
			}
			db.Axioms = append(db.Axioms, &Axiom{Label: c.Label, E: c.E, Src: c.Src, File: loc})
		case "allocates":
			n, err := strconv.Atoi(strings.TrimSpace(rest))
			if err != nil {
				return fmt.Errorf("%s: allocates N", loc)
			}
			tgt.Allocates = n
		case "like":
			// like <key>: take over the clauses of another contract (an interface method's contract for its implementers)
			src, ok := db.Contracts[strings.TrimSpace(rest)]
			if !ok {
				return fmt.Errorf("%s: like %s: no such contract (must be defined earlier)", loc, rest)
			}
			tgt.Requires = append(tgt.Requires, src.Requires...)
			tgt.Ensures = append(tgt.Ensures, src.Ensures...)
			if src.HasMod {
				tgt.HasMod = true
				for _, m := range src.Modifies {
					if !contains(tgt.Modifies, m) {
						tgt.Modifies = append(tgt.Modifies, m)
					}
				}
			}
			tgt.Notes = append(tgt.Notes, "implements the contract of "+src.Key)
		case "unreachable":
			// unreachable "<source text of a return statement>": that return may be dead under the contracts in force
			t := strings.TrimSpace(rest)
			if u, err := strconv.Unquote(t); err == nil {
				t = u
			}
			tgt.Unreachable = append(tgt.Unreachable, t)
		case "access":
			// dispatch class, interpreted by the surface sweep (expanded into requires/ensures there)
			tgt.Access = rest
		case "sets":
			i := strings.Index(rest, "=")
			if i < 0 {
				return fmt.Errorf("%s: sets Ghost = expr", loc)
			}
			g := strings.TrimSpace(rest[:i])
			ex, err := parseExpr(strings.TrimSpace(rest[i+1:]))
			if err != nil {
				return fmt.Errorf("%s: %v", loc, err)
			}
			tgt.Sets = append(tgt.Sets, &SetClause{Ghost: g, E: ex, Src: rest, Line: loc})
			tgt.HasMod = true
			tgt.Modifies = append(tgt.Modifies, g)
		default:
			return fmt.Errorf("%s: unknown directive %q", loc, word)
		}
	}
	return nil
}

func parseGhostFunc(s string) (*GhostFunc, error) {
	// name(p T, q U) Ret [= expr]
	i := strings.Index(s, "(")
	j := strings.Index(s, ")")
	if i < 0 || j < i {
		return nil, fmt.Errorf("bad ghost func %q", s)
	}
	gf := &GhostFunc{Name: strings.TrimSpace(s[:i])}
	for _, p := range strings.Split(s[i+1:j], ",") {
		p = strings.TrimSpace(p)
		if p == "" {
			continue
		}
		f := strings.Fields(p)
		if len(f) != 2 {
			return nil, fmt.Errorf("bad ghost func param %q", p)
		}
		gf.Params = append(gf.Params, [2]string{f[0], f[1]})
	}
	rest := strings.TrimSpace(s[j+1:])
	if k := strings.Index(rest, "="); k >= 0 {
		gf.Ret = strings.TrimSpace(rest[:k])
		e, err := parseExpr(strings.TrimSpace(rest[k+1:]))
		if err != nil {
			return nil, err
		}
		gf.Body = e
	} else {
		gf.Ret = rest
	}
	return gf, nil
}

// loadSpecs reads contract files of the loaded repo packages and the trusted specs.
func loadSpecs(w *World, trustedDir string, overlay map[string][]byte) (*SpecDB, error) {
	db := newSpecDB()
	// trusted first so repo files may refer to ghost declarations
	files, _ := filepath.Glob(filepath.Join(trustedDir, "*.spec"))
	sort.Strings(files)
	for _, f := range files {
		src, err := os.ReadFile(f)
		if err != nil {
			return nil, err
		}
		if err := db.parseSpecFile(f, src, "", true); err != nil {
			return nil, err
		}
	}
	var pkgs []string
	for p := range w.ByPkg {
		pkgs = append(pkgs, p)
	}
	sort.Strings(pkgs)
	for _, pp := range pkgs {
		p := w.ByPkg[pp]
		for _, f := range p.GoFiles {
			if !strings.HasPrefix(filepath.Base(f), "verif_contracts") {
				continue
			}
			var src []byte
			if o, ok := overlay[f]; ok {
				src = o
			} else {
				var err error
				src, err = os.ReadFile(f)
				if err != nil {
					return nil, err
				}
			}
			if err := db.parseSpecFile(f, src, shortPkg(pp), false); err != nil {
				return nil, err
			}
		}
	}
	return db, nil
}

// ---------------------------------------------------------------------
// Expression AST and parser

type Expr interface{ String() string }

type (
	EIdent struct{ Name string }
	EInt   struct{ V string }
	EStr   struct{ V string }
	EBool  struct{ V bool }
	ENil   struct{}
	ESel   struct {
		X    Expr
		Name string
	}
	EIndex struct{ X, I Expr }
	ECall  struct {
		Fn   string
		Args []Expr
	}
	EUn struct {
		Op string
		X  Expr
	}
	EBin struct {
		Op   string
		L, R Expr
	}
	EQuant struct {
		Forall bool
		Vars   [][2]string
		Body   Expr
		Trig   []Expr // optional explicit trigger { e1, e2 }: one (multi-)pattern
	}
	ECond struct{ C, A, B Expr }
)

func (e *EIdent) String() string { return e.Name }
func (e *EInt) String() string   { return e.V }
func (e *EStr) String() string   { return strconv.Quote(e.V) }
func (e *EBool) String() string  { return fmt.Sprint(e.V) }
func (e *ENil) String() string   { return "nil" }
func (e *ESel) String() string   { return e.X.String() + "." + e.Name }
func (e *EIndex) String() string { return e.X.String() + "[" + e.I.String() + "]" }
func (e *ECall) String() string {
	var as []string
	for _, a := range e.Args {
		as = append(as, a.String())
	}
	return e.Fn + "(" + strings.Join(as, ", ") + ")"
}
func (e *EUn) String() string  { return e.Op + e.X.String() }
func (e *EBin) String() string { return "(" + e.L.String() + " " + e.Op + " " + e.R.String() + ")" }
func (e *EQuant) String() string {
	q := "exists"
	if e.Forall {
		q = "forall"
	}
	var vs []string
	for _, v := range e.Vars {
		vs = append(vs, v[0]+" "+v[1])
	}
	return "(" + q + " " + strings.Join(vs, ", ") + " :: " + e.Body.String() + ")"
}
func (e *ECond) String() string {
	return "(" + e.C.String() + " ? " + e.A.String() + " : " + e.B.String() + ")"
}

type tok struct {
	kind string // id int str op eof
	s    string
}

func lex(s string) ([]tok, error) {
	var out []tok
	i := 0
	for i < len(s) {
		c := s[i]
		switch {
		case c == ' ' || c == '\t':
			i++
		case unicode.IsLetter(rune(c)) || c == '_' || c == '#':
			j := i + 1
			for j < len(s) && (unicode.IsLetter(rune(s[j])) || unicode.IsDigit(rune(s[j])) || s[j] == '_') {
				j++
			}
			out = append(out, tok{"id", s[i:j]})
			i = j
		case c >= '0' && c <= '9':
			j := i
			for j < len(s) && (s[j] >= '0' && s[j] <= '9' || s[j] == '_') {
				j++
			}
			out = append(out, tok{"int", strings.ReplaceAll(s[i:j], "_", "")})
			i = j
		case c == '"':
			j := i + 1
			for j < len(s) && s[j] != '"' {
				if s[j] == '\\' {
					j++
				}
				j++
			}
			if j >= len(s) {
				return nil, fmt.Errorf("unterminated string")
			}
			v, err := strconv.Unquote(s[i : j+1])
			if err != nil {
				return nil, err
			}
			out = append(out, tok{"str", v})
			i = j + 1
		default:
			for _, op := range []string{"<==>", "==>", "::", "==", "!=", "<=", ">=", "&&", "||", "(*"} {
				if strings.HasPrefix(s[i:], op) && op != "(*" {
					out = append(out, tok{"op", op})
					i += len(op)
					goto next
				}
			}
			if strings.ContainsRune("+-*/%<>!()[].,?:{}", rune(c)) {
				out = append(out, tok{"op", string(c)})
				i++
			} else {
				return nil, fmt.Errorf("unexpected character %q", c)
			}
		next:
		}
	}
	out = append(out, tok{"eof", ""})
	return out, nil
}

type parser struct {
	toks []tok
	pos  int
}

func parseExpr(s string) (Expr, error) {
	toks, err := lex(s)
	if err != nil {
		return nil, err
	}
	p := &parser{toks: toks}
	var e Expr
	func() {
		defer func() {
			if r := recover(); r != nil {
				if pe, ok := r.(parseErr); ok {
					err = fmt.Errorf("%s", string(pe))
				} else {
					panic(r)
				}
			}
		}()
		e = p.expr(0)
		if p.peek().kind != "eof" {
			p.fail("unexpected %q", p.peek().s)
		}
	}()
	return e, err
}

type parseErr string

func (p *parser) fail(f string, a ...interface{}) { panic(parseErr(fmt.Sprintf(f, a...))) }
func (p *parser) peek() tok                       { return p.toks[p.pos] }
func (p *parser) next() tok                       { t := p.toks[p.pos]; p.pos++; return t }
func (p *parser) accept(op string) bool {
	if t := p.peek(); t.kind == "op" && t.s == op {
		p.pos++
		return true
	}
	return false
}
func (p *parser) expect(op string) {
	if !p.accept(op) {
		p.fail("expected %q, found %q", op, p.peek().s)
	}
}

var binPrec = map[string]int{"<==>": 1, "==>": 2, "||": 3, "&&": 4, "==": 5, "!=": 5, "<": 5, "<=": 5, ">": 5, ">=": 5,
	"+": 6, "-": 6, "*": 7, "/": 7, "%": 7}

func (p *parser) expr(min int) Expr {
	l := p.unary()
	for {
		t := p.peek()
		if t.kind != "op" {
			break
		}
		if t.s == "?" && min <= 0 {
			p.next()
			a := p.expr(0)
			p.expect(":")
			b := p.expr(0)
			l = &ECond{l, a, b}
			continue
		}
		pr, ok := binPrec[t.s]
		if !ok || pr < min {
			break
		}
		p.next()
		var r Expr
		if t.s == "==>" { // right associative
			r = p.expr(pr)
		} else {
			r = p.expr(pr + 1)
		}
		l = &EBin{t.s, l, r}
	}
	return l
}

func (p *parser) unary() Expr {
	if p.accept("!") {
		return &EUn{"!", p.unary()}
	}
	if p.accept("-") {
		return &EUn{"-", p.unary()}
	}
	return p.postfix(p.primary())
}

func (p *parser) postfix(e Expr) Expr {
	for {
		switch {
		case p.accept("."):
			t := p.next()
			if t.kind != "id" && t.kind != "int" {
				p.fail("selector expected")
			}
			e = &ESel{e, t.s}
		case p.accept("["):
			i := p.expr(0)
			p.expect("]")
			e = &EIndex{e, i}
		case p.peek().kind == "op" && p.peek().s == "(":
			id, ok := e.(*EIdent)
			if !ok {
				return e
			}
			p.next()
			var args []Expr
			if !p.accept(")") {
				for {
					args = append(args, p.expr(0))
					if p.accept(")") {
						break
					}
					p.expect(",")
				}
			}
			e = &ECall{id.Name, args}
		default:
			return e
		}
	}
}

func (p *parser) primary() Expr {
	t := p.next()
	switch t.kind {
	case "int":
		return &EInt{t.s}
	case "str":
		return &EStr{t.s}
	case "id":
		switch t.s {
		case "true":
			return &EBool{true}
		case "false":
			return &EBool{false}
		case "nil":
			return &ENil{}
		case "forall", "exists":
			var vars [][2]string
			for {
				n := p.next()
				ty := p.next()
				if n.kind != "id" || ty.kind != "id" {
					p.fail("quantifier binder: name type")
				}
				if (ty.s == "map" || ty.s == "set") && p.accept("[") {
					k := p.next()
					p.expect("]")
					ty.s = ty.s + "[" + k.s + "]"
					if ty.s[:3] == "map" {
						ty.s += p.next().s
					}
				}
				vars = append(vars, [2]string{n.s, ty.s})
				if !p.accept(",") {
					break
				}
			}
			var trig []Expr
			if p.accept("{") {
				for {
					trig = append(trig, p.expr(0))
					if !p.accept(",") {
						break
					}
				}
				p.expect("}")
			}
			p.expect("::")
			body := p.expr(0)
			return &EQuant{t.s == "forall", vars, body, trig}
		}
		return &EIdent{t.s}
	case "op":
		if t.s == "(" {
			e := p.expr(0)
			p.expect(")")
			return e
		}
	}
	p.fail("unexpected %q", t.s)
	return nil
}

var ksTok = regexp.MustCompile(`"([^"]*)"|[A-Za-z_][A-Za-z0-9_]*`)

// keyspace <name> prefix "a" "b" ... exact "c" ...
func parseKeySpace(rest string) (*KeySpace, error) {
	toks := ksTok.FindAllString(rest, -1)
	if len(toks) < 2 {
		return nil, fmt.Errorf("keyspace <name> prefix \"..\" ... exact \"..\" ...")
	}
	ks := &KeySpace{Name: toks[0]}
	mode := ""
	for _, t := range toks[1:] {
		switch {
		case t == "prefix" || t == "exact":
			mode = t
		case strings.HasPrefix(t, "\""):
			v := t[1 : len(t)-1]
			if mode == "prefix" {
				ks.Prefixes = append(ks.Prefixes, v)
			} else if mode == "exact" {
				ks.Exact = append(ks.Exact, v)
			} else {
				return nil, fmt.Errorf("keyspace: literal before prefix/exact")
			}
		default:
			return nil, fmt.Errorf("keyspace: unexpected %q", t)
		}
	}
	for i, p := range ks.Prefixes {
		if p == "" {
			return nil, fmt.Errorf("keyspace %s: empty prefix", ks.Name)
		}
		for j, q := range ks.Prefixes {
			if i != j && strings.HasPrefix(q, p) {
				return nil, fmt.Errorf("keyspace %s: prefix %q is a prefix of %q: keys of the two families can collide", ks.Name, p, q)
			}
		}
		for _, k := range ks.Exact {
			if strings.HasPrefix(k, p) {
				return nil, fmt.Errorf("keyspace %s: prefix %q is a prefix of the exact key %q", ks.Name, p, k)
			}
		}
	}
	for i, k := range ks.Exact {
		for j, m := range ks.Exact {
			if i != j && k == m {
				return nil, fmt.Errorf("keyspace %s: exact key %q listed twice", ks.Name, k)
			}
		}
	}
	return ks, nil
}

// CallSiteRule: `callsites Cxx Name only f | g` - in the packages loaded for property Cxx every call whose callee
// (static function, method, or invoked interface method) is called Name stands in one of the listed functions.
type CallSiteRule struct {
	Prop string
	Name string
	Pkg  string // package (by name) whose functions are scanned
	Only []string
	File string
}
