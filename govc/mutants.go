package main

import (
	"bufio"
	"fmt"
	"os"
	"os/exec"
	"path/filepath"
	"sort"
	"strings"
)

// A mutant is a unified diff against /repo with header lines
//   # expect: <substring of the obligation name that must fail>
//   # why: free text
// It is applied to temporary copies of the touched files and loaded as a
// go/packages overlay: nothing under /repo is modified.

type Mutant struct {
	Only   string // restrict the functions verified (GOVC_ONLY) so that a mutant run stays short
	File   string
	Expect []string
	Why    string
}

func readMutant(path string) (*Mutant, error) {
	f, err := os.Open(path)
	if err != nil {
		return nil, err
	}
	defer f.Close()
	m := &Mutant{File: path}
	sc := bufio.NewScanner(f)
	for sc.Scan() {
		l := sc.Text()
		if strings.HasPrefix(l, "# expect:") {
			m.Expect = append(m.Expect, strings.TrimSpace(strings.TrimPrefix(l, "# expect:")))
		}
		if strings.HasPrefix(l, "# only:") {
			m.Only = strings.TrimSpace(strings.TrimPrefix(l, "# only:"))
		}
		if strings.HasPrefix(l, "# why:") {
			m.Why = strings.TrimSpace(strings.TrimPrefix(l, "# why:"))
		}
	}
	return m, nil
}

// overlayFromDiff applies the diff to copies of the touched files.
func overlayFromDiff(diff string) (map[string][]byte, error) {
	tmp, err := os.MkdirTemp("", "govc-mut-")
	if err != nil {
		return nil, err
	}
	defer os.RemoveAll(tmp)
	b, err := os.ReadFile(diff)
	if err != nil {
		return nil, err
	}
	var files []string
	for _, l := range strings.Split(string(b), "\n") {
		if strings.HasPrefix(l, "+++ ") {
			p := strings.Fields(l)[1]
			p = strings.TrimPrefix(p, "b/")
			files = append(files, p)
		}
	}
	for _, f := range files {
		src := filepath.Join(repoDir(), f)
		dst := filepath.Join(tmp, f)
		os.MkdirAll(filepath.Dir(dst), 0o755)
		c, err := os.ReadFile(src)
		if err != nil {
			return nil, err
		}
		os.WriteFile(dst, c, 0o644)
	}
	cmd := exec.Command("patch", "-p1", "-s", "-i", diff)
	cmd.Dir = tmp
	if out, err := cmd.CombinedOutput(); err != nil {
		return nil, fmt.Errorf("patch %s: %v\n%s", diff, err, out)
	}
	ov := map[string][]byte{}
	for _, f := range files {
		c, err := os.ReadFile(filepath.Join(tmp, f))
		if err != nil {
			return nil, err
		}
		ov[filepath.Join(repoDir(), f)] = c
	}
	return ov, nil
}

// cmdMutants runs the must-fail corpus of a property. Exit 0 iff every mutant is caught by an expected obligation.
func cmdMutants(args []string) int {
	if len(args) < 1 {
		usage()
	}
	var files []string
	if len(args) > 1 {
		files = args[1:]
	}
	_, bad, _ := runMutants(args[0], files, true)
	if bad > 0 {
		return 1
	}
	return 0
}

// runMutants returns (number of mutants, number not caught, per-mutant lines).
func runMutants(prop string, files []string, verbose bool) (int, int, []string) {
	if files == nil {
		files, _ = filepath.Glob(filepath.Join(verifDir, "selftest", prop, "*.diff"))
		sort.Strings(files)
	}
	var lines []string
	say := func(f string, a ...interface{}) {
		l := fmt.Sprintf(f, a...)
		lines = append(lines, l)
		if verbose {
			fmt.Println(l)
		}
	}
	bad := 0
	for _, f := range files {
		m, err := readMutant(f)
		if err != nil {
			say("%v", err)
			bad++
			continue
		}
		ov, err := overlayFromDiff(f)
		if err != nil {
			say("MUTANT-ERROR %s %v", filepath.Base(f), err)
			bad++
			continue
		}
		os.Setenv("GOVC_ONLY", m.Only)
		resetTerms()
		heapSorts = map[string]string{}
		heapIsRef = map[string]bool{}
		res, err := runCheck(prop, "quick", ov, true)
		if err != nil {
			say("MUTANT-ERROR %s %v", filepath.Base(f), err)
			bad++
			continue
		}
		var failed []string
		for _, a := range res.Aggs {
			if len(a.Failed) > 0 {
				failed = append(failed, a.Name)
			}
		}
		hit := false
		for _, fn := range failed {
			for _, ex := range m.Expect {
				if strings.Contains(fn, ex) {
					hit = true
				}
			}
			if len(m.Expect) == 0 {
				hit = true
			}
		}
		if hit {
			say("MUTANT-CAUGHT %s by %v", filepath.Base(f), failed)
		} else {
			say("MUTANT-MISSED %s (expected %v, failed %v)", filepath.Base(f), m.Expect, failed)
			bad++
		}
	}
	os.Unsetenv("GOVC_ONLY")
	say("selftest %s: %d mutants, %d not caught as expected", prop, len(files), bad)
	return len(files), bad, lines
}
