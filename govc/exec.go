package main

import (
	"fmt"
	"go/ast"
	"go/constant"
	"go/token"
	"go/types"
	"math/big"
	"os"
	"sort"
	"strings"
	"time"

	"golang.org/x/tools/go/ssa"
)

// Obligation is one proof obligation instance (one path, one clause).
type Obligation struct {
	NoRetry bool  // expected to fail (open known finding): a timeout gets no second chance
	Name   string // <prop>/<func>/<kind>:<label>
	Kind   string
	Fn     string
	Label  string
	PC     []*Term
	Goal   *Term
	Src    string
	Line   string
	Trace  []string
	Props  []string
	Unsupp string // non-empty: failed without a query (unsupported construct etc.)
	// filled by the solver stage
	Result  string // unsat / sat / unknown / timeout / unsupported
	Solver  string
	Ms      int64
	Model   string
	FailSMT string
	Witness *Term // optional: known-finding witness to split on
}

type Engine struct {
	w            *World
	db           *SpecDB
	obls         []*Obligation
	unspecified  map[string]bool
	inlined      map[string]bool
	usedSpecs    map[string]bool
	notes        []string
	pathBudget   int
	paths        int
	overlay      map[string][]byte
	nextCell     int
	curFn        *ssa.Function
	curContract  *Contract
	entry        *State
	entryParams  map[string]SVal
	mode         string // "verify" (default) or "nopanic"
	srcCache     map[string][]byte
	axioms       []*Term
	covered      []*Term // pcs of reached returns (vacuity)
	returns      int
	frame        *frameInfo
	curProp      string
	curCallee    *ssa.Function // static callee of the contract call being applied (nil: dynamic)
	topFrame     *Frame        // frame of the function under verification
	callFrame    *Frame        // frame executing the contract call being applied
	backCovers   []Outcome     // states that reached a loop back edge of the function under verification (vacuity of loop bodies)
	privTypes    map[*ssa.Function][]*types.Slice
	mergeInlined bool
	deadline     time.Time
	funcBudgetS  int
}

type frameObj struct {
	key string
	ref *Term
}

// frameInfo is the resolved modifies clause of the function under verification.
type frameInfo struct {
	all        bool
	ghosts     bool     // `modifies ghosts`: every ghost variable may change
	except     []string // `modifies * except T`: heap key prefixes that must stay unchanged
	exceptKeys []string
	keys       map[string]bool
	objs       []frameObj
}

type Frame struct {
	fn       *ssa.Function
	regs     map[ssa.Value]Val
	cellOf   map[*ssa.Alloc]int
	named    map[string]int // Go variable name -> cell
	namedT   map[string]types.Type
	defers   []deferred
	depth    int
	contract *Contract // loop invariants come from here (nil: inlined, loops unsupported)
	loops    map[*ssa.BasicBlock]*Loop
	free     []Val
	top      bool
	parent   *Frame
	params   map[string]SVal // entry values of parameters
	iters    map[ssa.Value]*mapIter
}

type deferred struct {
	call ssa.CallCommon
	args []Val
	fnv  Val
}

type mapIter struct {
	m     *Term
	mt    *types.Map
	cell  int // holds the visited set (Array K Bool) as a scalar Val
	ncell int // number of keys handed out so far (= cardinality of the visited set)
	isStr bool
}

type Loop struct {
	autoFrame []string
	Header    *ssa.BasicBlock
	Blocks    map[*ssa.BasicBlock]bool
	Ordinal   int
	Text      string
	Pos       token.Pos
	Spec      *LoopSpec
}

type Outcome struct {
	st      *State
	results []Val
	panics  bool
	site    string // source position of the return statement (top-level outcomes)
	fr      *Frame // the frame (of this path) that executed the return
}

type unsupported struct{ msg string }

func unsupp(f string, a ...interface{}) { panic(unsupported{fmt.Sprintf(f, a...)}) }

func newEngine(w *World, db *SpecDB) *Engine {
	return &Engine{w: w, db: db, unspecified: map[string]bool{}, inlined: map[string]bool{}, usedSpecs: map[string]bool{}, pathBudget: 6000, srcCache: map[string][]byte{}, mergeInlined: true, funcBudgetS: 45}
}

func (e *Engine) newCell(st *State, v Val) int {
	e.nextCell++
	st.cells[e.nextCell] = v
	return e.nextCell
}

func (e *Engine) emit(o *Obligation) {
	e.obls = append(e.obls, o)
}

// ---------------------------------------------------------------------
// loops

func (e *Engine) source(file string) []byte {
	if b, ok := e.srcCache[file]; ok {
		return b
	}
	var b []byte
	if o, ok := e.overlay[file]; ok {
		b = o
	} else {
		b, _ = os.ReadFile(file)
	}
	e.srcCache[file] = b
	return b
}

func normWS(s string) string { return strings.Join(strings.Fields(s), " ") }

// findLoops computes natural loops and pairs them with source loop statements.
func (e *Engine) findLoops(fn *ssa.Function) map[*ssa.BasicBlock]*Loop {
	loops := map[*ssa.BasicBlock]*Loop{}
	for _, b := range fn.Blocks {
		for _, s := range b.Succs {
			if s.Dominates(b) { // back edge b -> s
				l := loops[s]
				if l == nil {
					l = &Loop{Header: s, Blocks: map[*ssa.BasicBlock]bool{s: true}}
					loops[s] = l
				}
				// blocks that reach b without passing s
				var stack []*ssa.BasicBlock
				if !l.Blocks[b] {
					l.Blocks[b] = true
					stack = append(stack, b)
				}
				for len(stack) > 0 {
					x := stack[len(stack)-1]
					stack = stack[:len(stack)-1]
					for _, p := range x.Preds {
						if !l.Blocks[p] {
							l.Blocks[p] = true
							stack = append(stack, p)
						}
					}
				}
			}
		}
	}
	var hs []*ssa.BasicBlock
	for h := range loops {
		hs = append(hs, h)
	}
	sort.Slice(hs, func(i, j int) bool { return hs[i].Index < hs[j].Index })
	// source loops in order
	type srcLoop struct {
		pos, lbrace token.Pos
	}
	var sl []srcLoop
	if syn := fn.Syntax(); syn != nil {
		var body *ast.BlockStmt
		switch s := syn.(type) {
		case *ast.FuncDecl:
			body = s.Body
		case *ast.FuncLit:
			body = s.Body
		}
		if body != nil {
			ast.Inspect(body, func(n ast.Node) bool {
				switch s := n.(type) {
				case *ast.FuncLit:
					return false
				case *ast.ForStmt:
					sl = append(sl, srcLoop{s.Pos(), s.Body.Lbrace})
				case *ast.RangeStmt:
					sl = append(sl, srcLoop{s.Pos(), s.Body.Lbrace})
				}
				return true
			})
		}
	}
	for i, h := range hs {
		l := loops[h]
		l.Ordinal = i + 1
		if len(sl) == len(hs) {
			p0 := e.w.Fset.Position(sl[i].pos)
			p1 := e.w.Fset.Position(sl[i].lbrace)
			src := e.source(p0.Filename)
			if p0.Offset < len(src) && p1.Offset <= len(src) && p0.Offset < p1.Offset {
				l.Text = normWS(string(src[p0.Offset:p1.Offset]))
			}
			l.Pos = sl[i].pos
		}
	}
	return loops
}

// ---------------------------------------------------------------------
// places / values of SSA operands

func (e *Engine) isCellAlloc(a *ssa.Alloc) bool {
	// A cell is an Alloc whose address only flows into loads, stores (as address),
	// field/index address computations and closure bindings.
	if at, ok := a.Type().(*types.Pointer).Elem().Underlying().(*types.Array); ok && !isByte(at.Elem()) {
		return false // arrays live in element space so that they can be sliced
	}
	return cellLike(a, map[ssa.Value]bool{})
}

func cellLike(v ssa.Value, seen map[ssa.Value]bool) bool {
	if seen[v] {
		return true
	}
	seen[v] = true
	refs := v.Referrers()
	if refs == nil {
		return false
	}
	for _, r := range *refs {
		switch x := r.(type) {
		case *ssa.Store:
			if x.Val == v {
				return false // address stored somewhere
			}
		case *ssa.UnOp:
			if x.Op != token.MUL {
				return false
			}
		case *ssa.FieldAddr:
			if !cellLike(x, seen) {
				return false
			}
		case *ssa.IndexAddr:
			if !cellLike(x, seen) {
				return false
			}
		case *ssa.DebugRef:
		case *ssa.MakeClosure:
			// the closure's matching free variable must be cell-like too
			fn := x.Fn.(*ssa.Function)
			for i, b := range x.Bindings {
				if b == v {
					if !cellLike(fn.FreeVars[i], seen) {
						return false
					}
				}
			}
		default:
			return false
		}
	}
	return true
}

func (e *Engine) constVal(c *ssa.Const) Val {
	t := c.Type()
	if c.Value == nil {
		return zeroVal(t)
	}
	switch kindOf(t) {
	case kBool:
		return scalar(BoolLit(constant.BoolVal(c.Value)))
	case kInt:
		if v, ok := constant.Val(constant.ToInt(c.Value)).(*big.Int); ok {
			return scalar(BigLit(v))
		}
		if v, ok := constant.Int64Val(constant.ToInt(c.Value)); ok {
			return scalar(IntLit(v))
		}
	case kSeq:
		return scalar(SeqLit(constant.StringVal(c.Value)))
	case kFloat:
		return scalar(App("float$"+strings.ReplaceAll(c.Value.ExactString(), " ", ""), SInt))
	}
	unsupp("constant %s of type %s", c, t)
	return Val{}
}

func (e *Engine) val(fr *Frame, st *State, v ssa.Value) Val {
	switch x := v.(type) {
	case *ssa.Const:
		return e.constVal(x)
	case *ssa.Global:
		return Val{P: &Place{Kind: PGlobal, Name: x.Pkg.Pkg.Path() + "." + x.Name(), Typ: x.Type().(*types.Pointer).Elem()}}
	case *ssa.Function:
		return Val{T: App("fn$"+funcKey(x), SInt), Clo: &Closure{Fn: x}}
	case *ssa.FreeVar:
		for i, fv := range fr.fn.FreeVars {
			if fv == x {
				return fr.free[i]
			}
		}
		unsupp("free variable %s not bound", x.Name())
	case *ssa.Builtin:
		return Val{T: IntLit(0)}
	}
	if r, ok := fr.regs[v]; ok {
		return r
	}
	unsupp("value %s (%T) has no register", v.Name(), v)
	return Val{}
}

// asRef turns a pointer-typed SSA value into a reference term (places of whole heap objects only).
func (e *Engine) asRef(fr *Frame, st *State, v ssa.Value) *Term {
	x := e.val(fr, st, v)
	return e.refOf(x, v.Type())
}

func (e *Engine) refOf(x Val, t types.Type) *Term {
	if x.P != nil {
		p := x.P
		if (p.Kind == PField || p.Kind == PBox) && len(p.Path) == 0 {
			return p.Ref
		}
		unsupp("interior or local pointer used as a first-class value (%s)", t)
	}
	return x.T
}

// placeOf turns an address-valued operand into a place.
func (e *Engine) placeOf(fr *Frame, st *State, v ssa.Value) *Place {
	x := e.val(fr, st, v)
	if x.P != nil {
		return x.P
	}
	return derefPlace(x.T, v.Type())
}

// ---------------------------------------------------------------------
// function execution

func (e *Engine) newFrame(fn *ssa.Function, parent *Frame, contract *Contract) *Frame {
	fr := &Frame{fn: fn, regs: map[ssa.Value]Val{}, cellOf: map[*ssa.Alloc]int{}, named: map[string]int{}, namedT: map[string]types.Type{},
		contract: contract, parent: parent, params: map[string]SVal{}, iters: map[ssa.Value]*mapIter{}}
	if parent != nil {
		fr.depth = parent.depth + 1
	}
	fr.loops = e.findLoops(fn)
	if contract != nil {
		for _, l := range fr.loops {
			l.Spec = contract.Loops[l.Ordinal]
			if l.Spec == nil {
				l.Spec = contract.Loops[0]
			}
		}
	}
	return fr
}

// execFunc runs fn from st with the given argument values and returns all outcomes.
func (e *Engine) execFunc(fr *Frame, st *State, args []Val) []Outcome {
	fn := fr.fn
	if len(fn.Blocks) == 0 {
		unsupp("function %s has no body", fn)
	}
	for i, p := range fn.Params {
		fr.regs[p] = args[i]
		fr.params[p.Name()] = SVal{V: args[i], T: p.Type()}
	}
	var outs []Outcome
	e.runBlock(fr, st, fn.Blocks[0], nil, &outs)
	return outs
}

func (e *Engine) runBlock(fr *Frame, st *State, b *ssa.BasicBlock, from *ssa.BasicBlock, outs *[]Outcome) {
	e.runBlockAt(fr, st, b, from, 0, outs)
}

func (e *Engine) runBlockAt(fr *Frame, st *State, b *ssa.BasicBlock, from *ssa.BasicBlock, start int, outs *[]Outcome) {
	for {
		if st.dead {
			return
		}
		if start == 0 {
			// loop header handling
			if l, ok := fr.loops[b]; ok {
				if from != nil && l.Blocks[from] {
					e.loopBackEdge(fr, st, l)
					return
				}
				e.loopEnter(fr, st, l)
				if st.dead {
					return
				}
			}
			st.trace = append(st.trace, fmt.Sprintf("%s#%d", fr.fn.Name(), b.Index))
			if !e.deadline.IsZero() && time.Now().After(e.deadline) {
				unsupp("time budget for symbolic execution exceeded (%ds)", e.funcBudgetS)
			}
		}
		var next *ssa.BasicBlock
		for idx := start; idx < len(b.Instrs); idx++ {
			ins := b.Instrs[idx]
			switch x := ins.(type) {
			case *ssa.Phi:
				pi := -1
				for i, p := range b.Preds {
					if p == from {
						pi = i
					}
				}
				if pi < 0 {
					unsupp("phi without predecessor")
				}
				fr.regs[x] = e.val(fr, st, x.Edges[pi])
			case *ssa.If:
				c := e.val(fr, st, x.Cond).T
				tb, fb := b.Succs[0], b.Succs[1]
				if k := st.known(c); k == 1 {
					next = tb
				} else if k == -1 {
					next = fb
				} else {
					e.paths++
					if e.paths > e.pathBudget {
						unsupp("path budget exceeded (%d)", e.pathBudget)
					}
					st2 := st.clone()
					st2.assume(Not(c))
					fr2 := fr.fork()
					e.runBlockAt(fr2, st2, fb, b, 0, outs)
					st.assume(c)
					next = tb
				}
			case *ssa.Jump:
				next = b.Succs[0]
			case *ssa.Return:
				res := make([]Val, len(x.Results))
				for i, r := range x.Results {
					res[i] = e.materialize(e.val(fr, st, r), r.Type())
				}
				*outs = append(*outs, Outcome{st: st, results: res, site: e.pos(x), fr: fr})
				return
			case *ssa.Panic:
				e.onPanic(fr, st, x, "explicit panic")
				*outs = append(*outs, Outcome{st: st, panics: true})
				return
			default:
				sts := e.step(fr, st, ins)
				if sts != nil {
					if len(sts) == 0 {
						return
					}
					for _, s2 := range sts[1:] {
						e.paths++
						if e.paths > e.pathBudget {
							unsupp("path budget exceeded (%d)", e.pathBudget)
						}
						e.runBlockAt(fr.fork(), s2, b, from, idx+1, outs)
					}
					st = sts[0]
				}
				if st.dead {
					return
				}
			}
		}
		if next == nil {
			return
		}
		from, b, start = b, next, 0
	}
}

// fork copies the per-path mutable parts of a frame chain.
func (fr *Frame) fork() *Frame {
	n := *fr
	n.regs = make(map[ssa.Value]Val, len(fr.regs))
	for k, v := range fr.regs {
		n.regs[k] = v
	}
	n.cellOf = make(map[*ssa.Alloc]int, len(fr.cellOf))
	for k, v := range fr.cellOf {
		n.cellOf[k] = v
	}
	n.named = make(map[string]int, len(fr.named))
	for k, v := range fr.named {
		n.named[k] = v
	}
	n.namedT = make(map[string]types.Type, len(fr.namedT))
	for k, v := range fr.namedT {
		n.namedT[k] = v
	}
	n.iters = make(map[ssa.Value]*mapIter, len(fr.iters))
	for k, v := range fr.iters {
		n.iters[k] = v
	}
	n.defers = append([]deferred{}, fr.defers...)
	return &n
}

func (e *Engine) onPanic(fr *Frame, st *State, ins ssa.Instruction, why string) {
	if e.mode == "nopanic" {
		e.emit(&Obligation{Kind: "nopanic", Fn: funcKey(e.curFn), Label: why, PC: st.pc, Goal: False(),
			Line: e.pos(ins), Trace: st.trace})
	}
}

func (e *Engine) pos(ins ssa.Instruction) string {
	p := ins.Pos()
	if !p.IsValid() {
		// find any positioned instruction nearby
		if b := ins.Block(); b != nil {
			for _, i := range b.Instrs {
				if i.Pos().IsValid() {
					p = i.Pos()
					break
				}
			}
		}
	}
	pp := e.w.Fset.Position(p)
	return fmt.Sprintf("%s:%d", strings.TrimPrefix(pp.Filename, e.w.RepoDir+"/"), pp.Line)
}

func (e *Engine) posOf(p token.Pos) string {
	pp := e.w.Fset.Position(p)
	return fmt.Sprintf("%s:%d", strings.TrimPrefix(pp.Filename, e.w.RepoDir+"/"), pp.Line)
}

// check records an implicit safety condition: in nopanic mode it is an
// obligation; in every mode the path continues under the condition.
func (e *Engine) check(fr *Frame, st *State, ins ssa.Instruction, cond *Term, why string) {
	if cond.isTrue() {
		return
	}
	if e.mode == "nopanic" {
		e.emit(&Obligation{Kind: "nopanic", Fn: funcKey(e.curFn), Label: why, PC: st.pc, Goal: cond,
			Line: e.pos(ins), Trace: st.trace})
	}
	st.assume(cond)
}

// ---------------------------------------------------------------------
// instruction semantics

func (e *Engine) step(fr *Frame, st *State, ins ssa.Instruction) []*State {
	switch x := ins.(type) {
	case *ssa.DebugRef:
	case *ssa.Alloc:
		el := x.Type().(*types.Pointer).Elem()
		if e.isCellAlloc(x) {
			id := e.newCell(st, zeroVal(el))
			fr.cellOf[x] = id
			if x.Comment != "" {
				fr.named[x.Comment] = id
				fr.namedT[x.Comment] = el
			}
			fr.regs[x] = Val{P: &Place{Kind: PLocal, Cell: id, Typ: el}}
		} else {
			r := st.allocObject(el)
			fr.regs[x] = Val{T: r}
			if x.Comment != "" && !x.Heap {
				// escaping local: still addressable by name through a box/field place
			}
			if x.Comment != "" {
				// remember name -> object so specs can mention escaping locals
				id := e.newCell(st, Val{T: r})
				fr.named["&"+x.Comment] = id
				fr.namedT["&"+x.Comment] = x.Type()
			}
		}
	case *ssa.Store:
		p := e.placeOf(fr, st, x.Addr)
		if p.Kind != PLocal && p.Kind != PGlobal {
			e.check(fr, st, ins, Ne(p.Ref, IntLit(0)), "nil dereference")
		}
		v := e.val(fr, st, x.Val)
		if p.Kind == PLocal && v.P != nil && v.T == nil && v.Fs == nil {
			// a local cell may hold an interior pointer (place) as such
			st.store(p, v)
			break
		}
		v = e.materialize(v, x.Val.Type())
		st.store(p, v)
	case *ssa.UnOp:
		fr.regs[x] = e.unop(fr, st, x)
	case *ssa.BinOp:
		fr.regs[x] = e.binop(fr, st, x)
	case *ssa.FieldAddr:
		base := e.val(fr, st, x.X)
		pt := x.X.Type().Underlying().(*types.Pointer).Elem()
		if base.P != nil {
			p := *base.P
			p.Path = append(append([]int{}, p.Path...), x.Field)
			fr.regs[x] = Val{P: &p}
		} else {
			e.check(fr, st, ins, Ne(base.T, IntLit(0)), "nil dereference")
			if isBigInt(pt) {
				unsupp("field access inside big.Int")
			}
			fr.regs[x] = Val{P: &Place{Kind: PField, Ref: base.T, Typ: pt, Path: []int{x.Field}}}
		}
	case *ssa.Field:
		base := e.val(fr, st, x.X)
		fr.regs[x] = base.Fs[x.Field]
	case *ssa.IndexAddr:
		idx := e.val(fr, st, x.Index).T
		switch xt := x.X.Type().Underlying().(type) {
		case *types.Slice:
			s := e.val(fr, st, x.X)
			if kindOf(x.X.Type()) == kSeq {
				unsupp("address of byte-slice element")
			}
			e.check(fr, st, ins, And(Ge(idx, IntLit(0)), Lt(idx, s.Fs[2].T)), "index out of range")
			fr.regs[x] = Val{P: &Place{Kind: PElem, Ref: s.Fs[0].T, Idx: Add(s.Fs[1].T, idx), Typ: xt.Elem()}}
		case *types.Pointer:
			at, ok := xt.Elem().Underlying().(*types.Array)
			if !ok || isByte(at.Elem()) {
				unsupp("IndexAddr on %s", x.X.Type())
			}
			ref := e.asRef(fr, st, x.X)
			e.check(fr, st, ins, Ne(ref, IntLit(0)), "nil dereference")
			e.check(fr, st, ins, And(Ge(idx, IntLit(0)), Lt(idx, IntLit(at.Len()))), "index out of range")
			fr.regs[x] = Val{P: &Place{Kind: PElem, Ref: ref, Idx: idx, Typ: at.Elem()}}
		default:
			unsupp("IndexAddr on %s", x.X.Type())
		}
	case *ssa.Index:
		switch xt := x.X.Type().Underlying().(type) {
		case *types.Basic: // string
			s := e.val(fr, st, x.X).T
			idx := e.val(fr, st, x.Index).T
			e.check(fr, st, ins, And(Ge(idx, IntLit(0)), Lt(idx, seqLen(s))), "index out of range")
			r := App("seq_at", SInt, s, idx)
			st.intFact(r, types.Typ[types.Uint8])
			fr.regs[x] = scalar(r)
		default:
			unsupp("Index on %s", xt)
		}
	case *ssa.Slice:
		fr.regs[x] = e.sliceOp(fr, st, x)
	case *ssa.MakeSlice:
		ln := e.val(fr, st, x.Len).T
		cp := e.val(fr, st, x.Cap).T
		e.check(fr, st, ins, And(Ge(ln, IntLit(0)), Le(ln, cp)), "makeslice: len out of range")
		if kindOf(x.Type()) == kSeq {
			r := Fresh("mkbytes", SSeq)
			st.assume(Eq(seqLen(r), ln))
			st.assume(Ne(r, nilBytes()))
			fr.regs[x] = scalar(r)
			break
		}
		arr := st.newRef()
		el := x.Type().Underlying().(*types.Slice).Elem()
		// zeroed elements
		for _, l := range leaves(el) {
			k := elemKey(el, l.path)
			outer := st.heapGet(k, arrSort(SInt, arrSort(SInt, l.sort)))
			st.heapSet(k, Store(outer, arr, ConstArr(arrSort(SInt, l.sort), zeroLeaf(l))))
		}
		fr.regs[x] = Val{Fs: []Val{{T: arr}, {T: IntLit(0)}, {T: ln}, {T: cp}}}
	case *ssa.MakeMap:
		mt := x.Type().Underlying().(*types.Map)
		r := st.newRef()
		e.mapInit(st, x.Type(), mt, r)
		fr.regs[x] = scalar(r)
	case *ssa.MapUpdate:
		e.mapUpdate(fr, st, x)
	case *ssa.Lookup:
		fr.regs[x] = e.lookup(fr, st, x)
	case *ssa.Range:
		e.rangeInit(fr, st, x)
	case *ssa.Next:
		fr.regs[x] = e.rangeNext(fr, st, x)
	case *ssa.Extract:
		t := e.val(fr, st, x.Tuple)
		fr.regs[x] = t.Fs[x.Index]
	case *ssa.Convert:
		fr.regs[x] = e.convert(fr, st, x)
	case *ssa.ChangeType:
		fr.regs[x] = e.val(fr, st, x.X)
	case *ssa.ChangeInterface:
		fr.regs[x] = e.val(fr, st, x.X)
	case *ssa.MakeInterface:
		fr.regs[x] = e.makeInterface(fr, st, x.X, e.val(fr, st, x.X))
	case *ssa.TypeAssert:
		fr.regs[x] = e.typeAssert(fr, st, x)
	case *ssa.MakeClosure:
		fn := x.Fn.(*ssa.Function)
		bs := make([]Val, len(x.Bindings))
		for i, b := range x.Bindings {
			bs[i] = e.val(fr, st, b)
		}
		fr.regs[x] = Val{T: st.newRef(), Clo: &Closure{Fn: fn, Bindings: bs}}
	case *ssa.Call:
		if isDeferStack(x) {
			fr.regs[x] = scalar(IntLit(0))
			break
		}
		res, sts := e.call(fr, st, x, &x.Call, nil)
		fr.regs[x] = res
		return sts
	case *ssa.Defer:
		d := deferred{call: x.Call}
		for _, a := range x.Call.Args {
			d.args = append(d.args, e.val(fr, st, a))
		}
		if !x.Call.IsInvoke() {
			if _, ok := x.Call.Value.(*ssa.Function); !ok {
				if _, ok := x.Call.Value.(*ssa.Builtin); !ok {
					d.fnv = e.val(fr, st, x.Call.Value)
				}
			}
		} else {
			d.fnv = e.val(fr, st, x.Call.Value)
		}
		fr.defers = append(fr.defers, d)
	case *ssa.RunDefers:
		states := []*State{st}
		for i := len(fr.defers) - 1; i >= 0; i-- {
			d := fr.defers[i]
			var nextStates []*State
			for _, s := range states {
				_, sts := e.call(fr, s, x, &d.call, &d)
				if sts == nil {
					sts = []*State{s}
				}
				nextStates = append(nextStates, sts...)
			}
			states = nextStates
		}
		fr.defers = nil
		return states
	case *ssa.Go:
		return e.goStmt(fr, st, x)
	case *ssa.Send:
		e.sendOp(fr, st, ins, x.Chan, e.val(fr, st, x.X), x.X.Type())
	case *ssa.Select:
		return e.selectOp(fr, st, x)
	case *ssa.MakeChan:
		fr.regs[x] = scalar(st.newRef())
	case *ssa.SliceToArrayPointer:
		unsupp("slice to array pointer")
	default:
		unsupp("instruction %T", ins)
	}
	return nil
}

func isDeferStack(c *ssa.Call) bool {
	if b, ok := c.Call.Value.(*ssa.Builtin); ok {
		return b.Name() == "ssa:deferstack"
	}
	return false
}

func (e *Engine) note(s string) {
	for _, n := range e.notes {
		if n == s {
			return
		}
	}
	e.notes = append(e.notes, s)
}

// materialize makes sure a value about to be stored is a proper value (not an interior place).
func (e *Engine) materialize(v Val, t types.Type) Val {
	if v.P != nil && v.T == nil && v.Fs == nil {
		return Val{T: e.refOf(v, t), Clo: v.Clo}
	}
	return v
}

func seqLen(s *Term) *Term {
	if isSeqLit(s) {
		return IntLit(int64(len(s.op) - len("$seq:"))) // byte length of a string literal
	}
	if s.op == "$app:s2b" || s.op == "$app:b2s" {
		if isSeqLit(s.args[0]) {
			return seqLen(s.args[0])
		}
	}
	return App("seq_len", SInt, s)
}

func (e *Engine) unop(fr *Frame, st *State, x *ssa.UnOp) Val {
	switch x.Op {
	case token.MUL: // load
		p := e.placeOf(fr, st, x.X)
		if p.Kind != PLocal && p.Kind != PGlobal {
			e.check(fr, st, x, Ne(p.Ref, IntLit(0)), "nil dereference")
		}
		if p.Kind == PBox && isBigInt(p.Typ) {
			unsupp("load of big.Int value")
		}
		return st.load(p)
	case token.NOT:
		return scalar(Not(e.val(fr, st, x.X).T))
	case token.SUB:
		v := e.val(fr, st, x.X).T
		if kindOf(x.Type()) == kFloat {
			return scalar(App("fneg", SInt, v))
		}
		return scalar(wrapInt(Neg(v), x.Type()))
	case token.XOR:
		v := e.val(fr, st, x.X).T
		r := App("bitnot", SInt, v)
		st.intFact(r, x.Type())
		return scalar(r)
	case token.ARROW:
		// channel receive: fresh value
		e.note("channel receive returns an arbitrary value")
		return st.freshVal("recv", x.Type())
	}
	unsupp("unop %s", x.Op)
	return Val{}
}

func (e *Engine) binop(fr *Frame, st *State, x *ssa.BinOp) Val {
	a := e.val(fr, st, x.X)
	b := e.val(fr, st, x.Y)
	t := x.X.Type()
	k := kindOf(t)
	// comparisons
	switch x.Op {
	case token.EQL, token.NEQ:
		var eq *Term
		switch k {
		case kIface:
			if kindOf(x.Y.Type()) != kIface {
				unsupp("mixed interface comparison")
			}
			eq = And(Eq(a.Fs[0].T, b.Fs[0].T), Eq(a.Fs[1].T, b.Fs[1].T))
		case kSlice:
			// only comparison with nil is legal
			if isNilConst(x.Y) {
				eq = Eq(a.Fs[0].T, IntLit(0))
			} else {
				eq = Eq(b.Fs[0].T, IntLit(0))
			}
		case kSeq:
			if _, isSlice := t.Underlying().(*types.Slice); isSlice {
				if isNilConst(x.Y) {
					eq = Eq(a.T, nilBytes())
				} else {
					eq = Eq(b.T, nilBytes())
				}
			} else {
				eq = Eq(a.T, b.T)
			}
		case kStruct:
			eq = eqVal(a, b)
		case kRef:
			eq = Eq(e.materialize(a, t).T, e.materialize(b, x.Y.Type()).T)
		default:
			eq = Eq(a.T, b.T)
		}
		if x.Op == token.NEQ {
			eq = Not(eq)
		}
		return scalar(eq)
	case token.LSS, token.LEQ, token.GTR, token.GEQ:
		if k == kSeq {
			r := App("seq_lt", SBool, a.T, b.T)
			switch x.Op {
			case token.LSS:
				return scalar(r)
			case token.GTR:
				return scalar(App("seq_lt", SBool, b.T, a.T))
			case token.LEQ:
				return scalar(Not(App("seq_lt", SBool, b.T, a.T)))
			default:
				return scalar(Not(r))
			}
		}
		if k == kFloat {
			return scalar(App("fcmp_"+x.Op.String(), SBool, a.T, b.T))
		}
		switch x.Op {
		case token.LSS:
			return scalar(Lt(a.T, b.T))
		case token.LEQ:
			return scalar(Le(a.T, b.T))
		case token.GTR:
			return scalar(Gt(a.T, b.T))
		default:
			return scalar(Ge(a.T, b.T))
		}
	}
	if k == kSeq && x.Op == token.ADD {
		return scalar(seqCat(a.T, b.T))
	}
	if k == kFloat {
		return scalar(App("fop_"+x.Op.String(), SInt, a.T, b.T))
	}
	if k == kBool {
		switch x.Op {
		case token.AND, token.LAND:
			return scalar(And(a.T, b.T))
		case token.OR, token.LOR:
			return scalar(Or(a.T, b.T))
		}
	}
	if k != kInt {
		unsupp("binop %s on %s", x.Op, t)
	}
	rt := x.Type()
	switch x.Op {
	case token.ADD:
		return scalar(wrapInt(Add(a.T, b.T), rt))
	case token.SUB:
		return scalar(wrapInt(Sub(a.T, b.T), rt))
	case token.MUL:
		return scalar(wrapFull(Mul(a.T, b.T), rt))
	case token.QUO, token.REM:
		e.check(fr, st, x, Ne(b.T, IntLit(0)), "integer divide by zero")
		lo, _ := intRange(rt)
		var q, r *Term
		if lo.Sign() == 0 {
			q, r = EDiv(a.T, b.T), EMod(a.T, b.T)
			if _, lit := b.T.intVal(); !lit {
				// opaque: characterise
				st.assume(And(Eq(a.T, Add(Mul(b.T, q), r)), Ge(r, IntLit(0)), Lt(r, b.T)))
			}
		} else {
			// Go truncated division from euclidean
			qe, re := EDiv(a.T, b.T), EMod(a.T, b.T)
			if _, lit := b.T.intVal(); !lit {
				absb := Ite(Ge(b.T, IntLit(0)), b.T, Neg(b.T))
				st.assume(And(Eq(a.T, Add(Mul(b.T, qe), re)), Ge(re, IntLit(0)), Lt(re, absb)))
			}
			adj := And(Lt(a.T, IntLit(0)), Ne(re, IntLit(0)))
			q = Ite(adj, Ite(Gt(b.T, IntLit(0)), Add(qe, IntLit(1)), Sub(qe, IntLit(1))), qe)
			absb := Ite(Ge(b.T, IntLit(0)), b.T, Neg(b.T))
			r = Ite(adj, Sub(re, absb), re)
		}
		if x.Op == token.QUO {
			return scalar(wrapInt(q, rt))
		}
		return scalar(r)
	case token.AND, token.OR, token.XOR, token.SHL, token.SHR, token.AND_NOT:
		r := App("bit_"+map[token.Token]string{token.AND: "and", token.OR: "or", token.XOR: "xor", token.SHL: "shl", token.SHR: "shr", token.AND_NOT: "andnot"}[x.Op], SInt, a.T, b.T)
		st.intFact(r, rt)
		return scalar(r)
	}
	unsupp("binop %s", x.Op)
	return Val{}
}

func seqCat(a, b *Term) *Term {
	if a.op == "$seq:" {
		return b
	}
	if b.op == "$seq:" {
		return a
	}
	return App("seq_cat", SSeq, a, b)
}

func isNilConst(v ssa.Value) bool {
	c, ok := v.(*ssa.Const)
	return ok && c.Value == nil
}

func (e *Engine) convert(fr *Frame, st *State, x *ssa.Convert) Val {
	v := e.val(fr, st, x.X)
	from, to := x.X.Type(), x.Type()
	kf, kt := kindOf(from), kindOf(to)
	switch {
	case kf == kInt && kt == kInt:
		flo, fhi := intRange(from)
		tlo, thi := intRange(to)
		if flo.Cmp(tlo) >= 0 && fhi.Cmp(thi) <= 0 {
			return v
		}
		return scalar(wrapFull(v.T, to))
	case kf == kSeq && kt == kSeq:
		_, fs := from.Underlying().(*types.Slice)
		_, ts := to.Underlying().(*types.Slice)
		switch {
		case fs && !ts: // []byte -> string
			return scalar(App("b2s", SSeq, v.T))
		case !fs && ts: // string -> []byte
			r := App("s2b", SSeq, v.T)
			return scalar(r)
		}
		return v
	case kf == kInt && kt == kSeq:
		return scalar(App("rune2s", SSeq, v.T))
	case kf == kInt && kt == kFloat:
		return scalar(App("i2f", SInt, v.T))
	case kf == kFloat && kt == kInt:
		r := App("f2i", SInt, v.T)
		st.intFact(r, to)
		return scalar(r)
	case kf == kFloat && kt == kFloat:
		return v
	case kf == kRef && kt == kRef:
		return Val{T: e.materialize(v, from).T}
	}
	unsupp("convert %s -> %s", from, to)
	return Val{}
}

func (e *Engine) sliceOp(fr *Frame, st *State, x *ssa.Slice) Val {
	var lo, hi *Term
	if x.Low != nil {
		lo = e.val(fr, st, x.Low).T
	} else {
		lo = IntLit(0)
	}
	if x.Max != nil {
		unsupp("3-index slice")
	}
	switch kindOf(x.X.Type()) {
	case kSeq:
		s := e.val(fr, st, x.X).T
		if x.High != nil {
			hi = e.val(fr, st, x.High).T
		} else {
			hi = seqLen(s)
		}
		e.check(fr, st, x, And(Ge(lo, IntLit(0)), Le(lo, hi), Le(hi, seqLen(s))), "slice bounds out of range")
		r := App("seq_sub", SSeq, s, lo, hi)
		st.assume(Eq(seqLen(r), Sub(hi, lo)))
		return scalar(r)
	case kSlice:
		s := e.val(fr, st, x.X)
		arr, off, ln, cp := s.Fs[0].T, s.Fs[1].T, s.Fs[2].T, s.Fs[3].T
		_ = ln
		if x.High != nil {
			hi = e.val(fr, st, x.High).T
		} else {
			hi = ln
		}
		e.check(fr, st, x, And(Ge(lo, IntLit(0)), Le(lo, hi), Le(hi, cp)), "slice bounds out of range")
		return Val{Fs: []Val{{T: arr}, {T: Add(off, lo)}, {T: Sub(hi, lo)}, {T: Sub(cp, lo)}}}
	case kRef:
		// pointer to array
		pt, ok := x.X.Type().Underlying().(*types.Pointer)
		if !ok {
			break
		}
		at, ok := pt.Elem().Underlying().(*types.Array)
		if !ok {
			break
		}
		if isByte(at.Elem()) {
			// byte array viewed as a byte sequence
			v := st.load(e.placeOf(fr, st, x.X))
			if x.Low != nil || x.High != nil {
				if x.High != nil {
					hi = e.val(fr, st, x.High).T
				} else {
					hi = IntLit(at.Len())
				}
				e.check(fr, st, x, And(Ge(lo, IntLit(0)), Le(lo, hi), Le(hi, IntLit(at.Len()))), "slice bounds out of range")
				r := App("seq_sub", SSeq, v.T, lo, hi)
				st.assume(Eq(seqLen(r), Sub(hi, lo)))
				st.assume(Ne(r, nilBytes()))
				return scalar(r)
			}
			r := App("arr2bytes", SSeq, v.T)
			st.assume(Eq(seqLen(r), IntLit(at.Len())))
			st.assume(Ne(r, nilBytes()))
			return scalar(r)
		}
		ref := e.asRef(fr, st, x.X)
		if x.High != nil {
			hi = e.val(fr, st, x.High).T
		} else {
			hi = IntLit(at.Len())
		}
		e.check(fr, st, x, And(Ge(lo, IntLit(0)), Le(lo, hi), Le(hi, IntLit(at.Len()))), "slice bounds out of range")
		return Val{Fs: []Val{{T: ref}, {T: lo}, {T: Sub(hi, lo)}, {T: Sub(IntLit(at.Len()), lo)}}}
	}
	unsupp("slice of %s", x.X.Type())
	return Val{}
}

// ---------------------------------------------------------------------
// interfaces

func (e *Engine) makeInterface(fr *Frame, st *State, src ssa.Value, v Val) Val {
	t := src.Type()
	tag := IntLit(typeID(t))
	switch kindOf(t) {
	case kRef:
		return Val{Fs: []Val{{T: tag}, {T: e.materialize(v, t).T}}}
	case kInt, kFloat:
		return Val{Fs: []Val{{T: tag}, {T: App("box_int", SInt, v.T)}}}
	case kBool:
		return Val{Fs: []Val{{T: tag}, {T: Ite(v.T, IntLit(1), IntLit(0))}}}
	case kSeq:
		if v.T == nil || v.T.sort != SSeq {
			unsupp("boxing a %s whose value is not a sequence term (%v) at %s", t, v.T, e.pos(src.(ssa.Instruction)))
		}
		return Val{Fs: []Val{{T: tag}, {T: App("box_seq", SInt, v.T)}}}
	case kIface:
		return v
	default:
		// struct / slice values: immutable box object
		r := st.newRef()
		var p *Place
		if kindOf(t) == kStruct {
			p = &Place{Kind: PField, Ref: r, Typ: t}
		} else {
			p = &Place{Kind: PBox, Ref: r, Typ: t}
		}
		st.store(p, v)
		return Val{Fs: []Val{{T: tag}, {T: r}}}
	}
}

func (e *Engine) unbox(st *State, val *Term, t types.Type) Val {
	switch kindOf(t) {
	case kRef:
		return scalar(val)
	case kInt, kFloat:
		r := App("unbox_int", SInt, val)
		if kindOf(t) == kInt {
			st.intFact(r, t)
		}
		return scalar(r)
	case kBool:
		return scalar(Ne(val, IntLit(0)))
	case kSeq:
		return scalar(App("unbox_seq", SSeq, val))
	default:
		var p *Place
		if kindOf(t) == kStruct {
			p = &Place{Kind: PField, Ref: val, Typ: t}
		} else {
			p = &Place{Kind: PBox, Ref: val, Typ: t}
		}
		return st.load(p)
	}
}

// implementers returns the type ids (seen so far plus all named types in loaded packages) implementing iface.
func (e *Engine) tagImplements(tag *Term, iface *types.Interface, hint string) *Term {
	return App("implements$"+hint, SBool, tag)
}

func (e *Engine) typeAssert(fr *Frame, st *State, x *ssa.TypeAssert) Val {
	v := e.val(fr, st, x.X)
	tag, val := v.Fs[0].T, v.Fs[1].T
	var ok *Term
	var res Val
	if it, isI := x.AssertedType.Underlying().(*types.Interface); isI {
		if it.NumMethods() == 0 {
			ok = Ne(tag, IntLit(0))
		} else {
			// static subtype: always succeeds when non-nil
			if types.Implements(x.X.Type(), it) {
				ok = Ne(tag, IntLit(0))
			} else {
				ok = And(Ne(tag, IntLit(0)), e.tagImplements(tag, it, typeKey(x.AssertedType)))
			}
		}
		res = v
	} else {
		ok = Eq(tag, IntLit(typeID(x.AssertedType)))
		res = e.unbox(st, val, x.AssertedType)
	}
	if x.CommaOk {
		z := zeroVal(x.AssertedType)
		return Val{Fs: []Val{iteVal(ok, res, z), {T: ok}}}
	}
	e.check(fr, st, x, ok, "type assertion")
	return res
}

// ---------------------------------------------------------------------
// maps

func mapKeySort(mt *types.Map) (string, bool) {
	switch kindOf(mt.Key()) {
	case kInt, kRef:
		return SInt, true
	case kBool:
		return SBool, true
	case kSeq:
		return SSeq, true
	case kStruct:
		// a struct of scalar / string fields: the key is the term skey$T(fields...), an injective constructor
		if _, ok := structKeyFields(mt.Key()); ok {
			return SInt, true
		}
	}
	return "", false
}

// structKeyTypes: struct types used as map keys in this run (their constructors get injectivity axioms, verify.go)
var structKeyTypes = map[string]types.Type{}

func structKeyFields(t types.Type) ([]string, bool) {
	stt, ok := t.Underlying().(*types.Struct)
	if !ok || stt.NumFields() == 0 {
		return nil, false
	}
	var sorts []string
	for i := 0; i < stt.NumFields(); i++ {
		switch kindOf(stt.Field(i).Type()) {
		case kInt, kRef:
			sorts = append(sorts, SInt)
		case kBool:
			sorts = append(sorts, SBool)
		case kSeq:
			sorts = append(sorts, SSeq)
		default:
			return nil, false
		}
	}
	return sorts, true
}

// mapKey turns a key value into the term the map model is indexed with.
func mapKey(mt *types.Map, v Val) *Term {
	if kindOf(mt.Key()) != kStruct {
		return v.T
	}
	name := typeKey(mt.Key())
	structKeyTypes[name] = mt.Key()
	var ts []*Term
	for _, f := range v.Fs {
		ts = append(ts, f.T)
	}
	return App("skey$"+name, SInt, ts...)
}

// mapKeyVal is the inverse for keys handed out by a range loop: the fields are the projections of the key term.
func mapKeyVal(mt *types.Map, k *Term) Val {
	if kindOf(mt.Key()) != kStruct {
		return Val{T: k}
	}
	name := typeKey(mt.Key())
	structKeyTypes[name] = mt.Key()
	sorts, _ := structKeyFields(mt.Key())
	out := Val{}
	for i, srt := range sorts {
		out.Fs = append(out.Fs, Val{T: App(fmt.Sprintf("skey$%s$%d", name, i), srt, k)})
	}
	return out
}

func (e *Engine) mapInit(st *State, t types.Type, mt *types.Map, r *Term) {
	ks, ok := mapKeySort(mt)
	if !ok {
		return
	}
	dk := mapDomKey(mt)
	st.heapSet(dk, Store(st.heapGet(dk, arrSort(SInt, arrSort(ks, SBool))), r, ConstArr(arrSort(ks, SBool), False())))
	ck := mapCardKey(mt)
	st.heapSet(ck, Store(st.heapGet(ck, arrSort(SInt, SInt)), r, IntLit(0)))
}

func (e *Engine) mapDom(st *State, mt *types.Map, m *Term) *Term {
	ks, _ := mapKeySort(mt)
	return Select(st.heapGet(mapDomKey(mt), arrSort(SInt, arrSort(ks, SBool))), m)
}

func (e *Engine) mapCard(st *State, mt *types.Map, m *Term) *Term {
	c := Select(st.heapGet(mapCardKey(mt), arrSort(SInt, SInt)), m)
	if st.mark(c) {
		st.assume(Ge(c, IntLit(0)))
		st.assume(Implies(Eq(m, IntLit(0)), Eq(c, IntLit(0))))
		// a map of length 0 holds no key
		if ks, ok := mapKeySort(mt); ok {
			q := BoundVar("qe", ks)
			sel := Select(e.mapDom(st, mt, m), q)
			st.assume(Implies(Eq(c, IntLit(0)), Forall([]*Term{q}, Not(sel), sel)))
		}
	}
	return c
}

func (e *Engine) mapGet(st *State, mt *types.Map, m, k *Term) Val {
	ks, _ := mapKeySort(mt)
	return st.loadLeaves(mt.Elem(), func(l leaf) *Term {
		outer := st.heapGet(mapValKey(mt, l.path), arrSort(SInt, arrSort(ks, l.sort)))
		return Select(Select(outer, m), k)
	})
}

func (e *Engine) mapUpdate(fr *Frame, st *State, x *ssa.MapUpdate) {
	mt := x.Map.Type().Underlying().(*types.Map)
	m := e.val(fr, st, x.Map).T
	e.check(fr, st, x, Ne(m, IntLit(0)), "assignment to entry in nil map")
	ks, ok := mapKeySort(mt)
	if !ok {
		e.note("map with unsupported key type " + mt.Key().String() + ": update ignored, lookups arbitrary")
		return
	}
	k := mapKey(mt, e.val(fr, st, x.Key))
	raw := e.val(fr, st, x.Value)
	if raw.Clo != nil {
		if st.mapClos == nil {
			st.mapClos = map[int][]cloEntry{}
		}
		st.mapClos[m.id] = append(st.mapClos[m.id], cloEntry{key: k, clo: raw.Clo})
	}
	v := e.materialize(raw, x.Value.Type())
	e.mapStore(st, mt, ks, m, k, v)
}

func (e *Engine) mapStore(st *State, mt *types.Map, ks string, m, k *Term, v Val) {
	dk := mapDomKey(mt)
	dom := st.heapGet(dk, arrSort(SInt, arrSort(ks, SBool)))
	had := Select(Select(dom, m), k)
	st.heapSet(dk, Store(dom, m, Store(Select(dom, m), k, True())))
	ck := mapCardKey(mt)
	card := st.heapGet(ck, arrSort(SInt, SInt))
	st.heapSet(ck, Store(card, m, Add(Select(card, m), Ite(had, IntLit(0), IntLit(1)))))
	ls := leaves(mt.Elem())
	ts := v.flat()
	for i, l := range ls {
		vk := mapValKey(mt, l.path)
		outer := st.heapGet(vk, arrSort(SInt, arrSort(ks, l.sort)))
		st.heapSet(vk, Store(outer, m, Store(Select(outer, m), k, ts[i])))
	}
}

func (e *Engine) mapDelete(st *State, mt *types.Map, m, k *Term) {
	ks, ok := mapKeySort(mt)
	if !ok {
		return
	}
	dk := mapDomKey(mt)
	dom := st.heapGet(dk, arrSort(SInt, arrSort(ks, SBool)))
	had := Select(Select(dom, m), k)
	// delete on nil map is a no-op
	nd := Store(dom, m, Store(Select(dom, m), k, False()))
	st.heapSet(dk, nd)
	ck := mapCardKey(mt)
	card := st.heapGet(ck, arrSort(SInt, SInt))
	st.heapSet(ck, Store(card, m, Sub(Select(card, m), Ite(had, IntLit(1), IntLit(0)))))
}

func (e *Engine) lookup(fr *Frame, st *State, x *ssa.Lookup) Val {
	if mt, ok := x.X.Type().Underlying().(*types.Map); ok {
		m := e.val(fr, st, x.X).T
		_, sup := mapKeySort(mt)
		if !sup {
			v := st.freshVal("lookup", mt.Elem())
			if x.CommaOk {
				return Val{Fs: []Val{v, {T: Fresh("lookup_ok", SBool)}}}
			}
			return v
		}
		k := mapKey(mt, e.val(fr, st, x.Index))
		has := And(Ne(m, IntLit(0)), Select(e.mapDom(st, mt, m), k))
		v := e.mapGet(st, mt, m, k)
		r := iteVal(has, v, zeroVal(mt.Elem()))
		if x.CommaOk {
			return Val{Fs: []Val{r, {T: has}}}
		}
		return r
	}
	// string index
	s := e.val(fr, st, x.X).T
	idx := e.val(fr, st, x.Index).T
	e.check(fr, st, x, And(Ge(idx, IntLit(0)), Lt(idx, seqLen(s))), "index out of range")
	r := App("seq_at", SInt, s, idx)
	st.intFact(r, types.Typ[types.Uint8])
	return scalar(r)
}

// loopCounts: the loop whose header holds this Next has an invariant that mentions nvisited().
func (e *Engine) loopCounts(fr *Frame, x *ssa.Next) bool {
	l := fr.loops[x.Block()]
	if l == nil || l.Spec == nil {
		return false
	}
	for _, inv := range l.Spec.Invs {
		if strings.Contains(inv.Src, "nvisited(") {
			return true
		}
	}
	return false
}

func (e *Engine) rangeInit(fr *Frame, st *State, x *ssa.Range) {
	it := &mapIter{}
	if mt, ok := x.X.Type().Underlying().(*types.Map); ok {
		it.mt = mt
		it.m = e.val(fr, st, x.X).T
		ks, sup := mapKeySort(mt)
		if !sup {
			unsupp("range over map with key %s", mt.Key())
		}
		it.cell = e.newCell(st, scalar(ConstArr(arrSort(ks, SBool), False())))
		it.ncell = e.newCell(st, scalar(IntLit(0)))
	} else {
		it.isStr = true
		it.m = e.val(fr, st, x.X).T
		it.cell = e.newCell(st, scalar(IntLit(0)))
	}
	fr.iters[x] = it
	fr.regs[x] = scalar(IntLit(0))
}

func (e *Engine) rangeNext(fr *Frame, st *State, x *ssa.Next) Val {
	it := fr.iters[x.Iter]
	if it == nil {
		unsupp("next on unknown iterator")
	}
	ok := Fresh("next_ok", SBool)
	if it.isStr {
		pos := st.cells[it.cell].T
		st.assume(Eq(ok, Lt(pos, seqLen(it.m))))
		w := Fresh("runew", SInt)
		st.assume(And(Ge(w, IntLit(1)), Le(w, IntLit(4))))
		r := App("rune_at", SInt, it.m, pos)
		st.intFact(r, types.Typ[types.Int32])
		st.cells[it.cell] = scalar(Ite(ok, Add(pos, w), pos))
		return Val{Fs: []Val{{T: ok}, {T: pos}, {T: r}}}
	}
	mt := it.mt
	ks, _ := mapKeySort(mt)
	visited := st.cells[it.cell].T
	k := Fresh("rk", ks)
	dom := e.mapDom(st, mt, it.m)
	inDom := And(Ne(it.m, IntLit(0)), Select(dom, k))
	// ok -> k is an unvisited key ; !ok -> every key is visited
	st.assume(Implies(ok, And(inDom, Not(Select(visited, k)))))
	q := BoundVar("qk", ks)
	st.assume(Implies(Not(ok), Forall([]*Term{q}, Implies(And(Ne(it.m, IntLit(0)), Select(dom, q)), Select(visited, q)), Select(visited, q))))
	st.cells[it.cell] = scalar(Ite(ok, Store(visited, k, True()), visited))
	// the keys handed out are pairwise different, so their number is the cardinality of the visited set; when the
	// visited set is exactly the map's domain at the exit, that number is the map's length
	nv := st.cells[it.ncell].T
	st.assume(Ge(nv, IntLit(0)))
	st.assume(Le(nv, IntLit(1<<62))) // a Go map never holds that many keys (len is an int)
	if e.loopCounts(fr, x) {
		// only for loops whose invariants count the visited keys (nvisited()): the quantified fact costs solver time
		q2 := BoundVar("qc", ks)
		st.assume(Implies(And(Not(ok), Ne(it.m, IntLit(0)), Forall([]*Term{q2}, Implies(Select(visited, q2), Select(dom, q2)), Select(visited, q2))),
			Eq(nv, e.mapCard(st, mt, it.m))))
		st.assume(Implies(And(Not(ok), Eq(it.m, IntLit(0))), Eq(nv, IntLit(0))))
	}
	st.cells[it.ncell] = scalar(Ite(ok, Add(nv, IntLit(1)), nv))
	kv := mapKeyVal(mt, k)
	if kindOf(mt.Key()) == kStruct {
		// the key handed out is the constructor applied to its own projections
		st.assume(Eq(k, mapKey(mt, kv)))
	}
	if kindOf(mt.Key()) == kInt {
		st.intFact(k, mt.Key())
	}
	v := e.mapGet(st, mt, it.m, k)
	return Val{Fs: []Val{{T: ok}, kv, v}}
}

// ---------------------------------------------------------------------
// goroutines

func (e *Engine) goStmt(fr *Frame, st *State, x *ssa.Go) []*State {
	// fire-and-forget sends on event feeds are dropped (ghost emit); anything else is sequentialised
	if !x.Call.IsInvoke() {
		if fn, ok := x.Call.Value.(*ssa.Function); ok {
			k := funcKey(fn)
			if strings.Contains(k, "event.(*Feed).Send") {
				e.note("go feed.Send dropped (ghost emit)")
				return nil
			}
		}
	}
	e.note("go statement executed sequentially at the spawn point (sound only if it commutes with the rest)")
	_, sts := e.call(fr, st, x, &x.Call, nil)
	return sts
}

// chanKey names a channel that is a struct field: "chan:pkg.Type.field".
func chanKey(ch ssa.Value) string {
	if u, ok := ch.(*ssa.UnOp); ok && u.Op == token.MUL {
		if fa, ok := u.X.(*ssa.FieldAddr); ok {
			st := fa.X.Type().Underlying().(*types.Pointer).Elem()
			if n, ok := st.(*types.Named); ok && n.Obj().Pkg() != nil {
				f := st.Underlying().(*types.Struct).Field(fa.Field)
				return "chan:" + n.Obj().Pkg().Name() + "." + n.Obj().Name() + "." + f.Name()
			}
		}
	}
	return ""
}

// sendOp: a send is non-blocking in the model; its ghost effect is the channel's contract (if any).
func (e *Engine) sendOp(fr *Frame, st *State, ins ssa.Instruction, ch ssa.Value, v Val, vt types.Type) {
	key := chanKey(ch)
	c := e.db.Contracts[key]
	if c == nil {
		e.note("send on a channel without contract (" + key + "): no ghost effect, blocking ignored")
		return
	}
	e.usedSpecs[key] = true
	name := "sent"
	if len(c.Params) > 0 {
		name = c.Params[0]
	}
	vars := map[string]SVal{name: {V: e.materialize(v, vt), T: vt}}
	e.applyContract(fr, st, ins, c, key, vars, types.NewTuple(), nil)
}

// selectOp: nondeterministic choice among the ready cases (one continuation per case).
func (e *Engine) selectOp(fr *Frame, st *State, x *ssa.Select) []*State {
	n := len(x.States)
	total := n
	if !x.Blocking {
		total = n + 1 // default case: index -1
	}
	// result tuple: (index int, recvOk bool, recv_0 ... recv_k)
	var recvTypes []types.Type
	for _, s := range x.States {
		if s.Dir == types.RecvOnly {
			recvTypes = append(recvTypes, s.Chan.Type().Underlying().(*types.Chan).Elem())
		}
	}
	idx := Fresh("select_idx", SInt)
	okv := Fresh("select_ok", SBool)
	res := Val{Fs: []Val{{T: idx}, {T: okv}}}
	for _, rt := range recvTypes {
		res.Fs = append(res.Fs, st.freshVal("select_recv", rt))
	}
	fr.regs[x] = res
	var out []*State
	for i := 0; i < total; i++ {
		s2 := st
		if i < total-1 {
			s2 = st.clone()
		}
		ci := i
		if !x.Blocking && i == n {
			ci = -1
		}
		s2.assume(Eq(idx, IntLit(int64(ci))))
		if ci >= 0 && x.States[ci].Dir == types.SendOnly {
			sc := x.States[ci]
			e.sendOp(fr, s2, x, sc.Chan, e.val(fr, s2, sc.Send), sc.Send.Type())
		}
		out = append(out, s2)
	}
	e.paths += total - 1
	// the original state object must come first
	for i, s := range out {
		if s == st {
			out[0], out[i] = out[i], out[0]
		}
	}
	return out
}
