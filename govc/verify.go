package main

import (
	"fmt"
	"go/types"
	"math/big"
	"os"
	"sort"
	"strings"
	"time"

	"golang.org/x/tools/go/ssa"
)

func maxU64() *big.Int {
	return new(big.Int).Sub(new(big.Int).Lsh(big.NewInt(1), 64), big.NewInt(1))
}

// FuncReport is what verifying one function under contract produced.
type FuncReport struct {
	Key         string
	File        string
	Instrs      int
	Paths       int
	Returns     int
	Obls        []*Obligation
	Unspecified []string
	Inlined     []string
	UsedSpecs   []string
	Notes       []string
	Unsupported string
	CoverPCs    [][]*Term
	CoverSites  []string // return site of each CoverPCs entry
	CoverTraces [][]string
	CoverKinds  []string // "return" or "loop" (a loop back edge) per CoverPCs entry
	DeadOK      []string // return sites the contract declares unreachable
	EntryPC     []*Term
	Probes      map[string]*Term
	Template    *ReplayTemplate
}

func (e *Engine) specAxioms(pkg *types.Package) []*Term {
	var out []*Term
	for _, a := range e.db.Axioms {
		st := &State{cells: map[int]Val{}, heap: map[string]*Term{}, seen: map[int]bool{}, hv: map[string]int{}}
		env := &SpecEnv{e: e, pre: st, post: st, vars: map[string]SVal{}, pkg: pkg}
		out = append(out, env.evalBool(a.E))
	}
	// key spaces: family id of a key, as a function of the key (exists because the literals were checked prefix-free)
	for _, ks := range e.db.KeySpaces {
		fam := func(k *Term) *Term { return App("ks$"+ks.Name, SInt, k) }
		a := BoundVar("ks_a", SSeq)
		for i, p := range ks.Prefixes {
			k := App("seq_cat", SSeq, App("s2b", SSeq, SeqLit(p)), a)
			out = append(out, Forall([]*Term{a}, Eq(fam(k), IntLit(int64(i+1))), k))
		}
		for i, x := range ks.Exact {
			out = append(out, Eq(fam(App("s2b", SSeq, SeqLit(x))), IntLit(int64(len(ks.Prefixes)+i+1))))
		}
	}
	return out
}

// builtinAxioms constrain the uninterpreted vocabulary of the memory model.
func builtinAxioms() []*Term {
	s := BoundVar("ax_s", SSeq)
	t := BoundVar("ax_t", SSeq)
	x := BoundVar("ax_x", SInt)
	y := BoundVar("ax_y", SSeq)
	ax := []*Term{
		Forall([]*Term{s}, Ge(seqLen(s), IntLit(0)), seqLen(s)),
		Eq(seqLen(SeqLit("")), IntLit(0)),
		Forall([]*Term{s}, Eq(App("b2s", SSeq, App("s2b", SSeq, s)), s), App("s2b", SSeq, s)),
		Forall([]*Term{s}, Ne(App("s2b", SSeq, s), nilBytes()), App("s2b", SSeq, s)),
		Forall([]*Term{s}, Eq(seqLen(App("s2b", SSeq, s)), seqLen(s)), App("s2b", SSeq, s)),
		Forall([]*Term{s}, Eq(seqLen(App("b2s", SSeq, s)), seqLen(s)), App("b2s", SSeq, s)),
		Eq(seqLen(nilBytes()), IntLit(0)),
		Forall([]*Term{s, t}, Eq(seqLen(App("seq_cat", SSeq, s, t)), Add(seqLen(s), seqLen(t))), App("seq_cat", SSeq, s, t)),
		Forall([]*Term{x}, Eq(App("unbox_int", SInt, App("box_int", SInt, x)), x), App("box_int", SInt, x)),
		Forall([]*Term{y}, Eq(App("unbox_seq", SSeq, App("box_seq", SInt, y)), y), App("box_seq", SInt, y)),
		Ge(alloc0(), IntLit(1)),
		// a concatenation determines its second part once the first is known (theorem of sequences)
		Forall([]*Term{s, t}, Eq(App("seq_drop", SSeq, App("seq_cat", SSeq, s, t), seqLen(s)), t), App("seq_cat", SSeq, s, t)),
	}
	// sync.Map identities: smid(object, field) is injective
	r := BoundVar("ax_r", SInt)
	f := BoundVar("ax_f", SInt)
	id := App("smid", SInt, r, f)
	ax = append(ax, Forall([]*Term{r, f}, And(Eq(App("smid_obj", SInt, id), r), Eq(App("smid_fld", SInt, id), f)), id))
	// struct map keys: the constructor is injective (each projection recovers its field)
	var names []string
	for n := range structKeyTypes {
		names = append(names, n)
	}
	sort.Strings(names)
	for _, n := range names {
		sorts, _ := structKeyFields(structKeyTypes[n])
		var bvs []*Term
		for i, srt := range sorts {
			bvs = append(bvs, BoundVar(fmt.Sprintf("ax_k%d", i), srt))
		}
		c := App("skey$"+n, SInt, bvs...)
		var eqs []*Term
		for i, srt := range sorts {
			eqs = append(eqs, Eq(App(fmt.Sprintf("skey$%s$%d", n, i), srt, c), bvs[i]))
		}
		ax = append(ax, Forall(bvs, And(eqs...), c))
	}
	return ax
}

func (e *Engine) newState() *State {
	return &State{cells: map[int]Val{}, heap: map[string]*Term{}, seen: map[int]bool{}, hv: map[string]int{}}
}

// verifyFunc symbolically executes fn against its contract and collects obligations.
func (e *Engine) verifyFunc(fn *ssa.Function, c *Contract, prop string) (rep *FuncReport) {
	key := funcKey(fn)
	rep = &FuncReport{Key: key}
	if fn.Pos().IsValid() {
		p := e.w.Fset.Position(fn.Pos())
		rep.File = fmt.Sprintf("%s:%d", strings.TrimPrefix(p.Filename, e.w.RepoDir+"/"), p.Line)
	}
	for _, b := range fn.Blocks {
		rep.Instrs += len(b.Instrs)
	}
	e.obls = nil
	e.unspecified = map[string]bool{}
	e.inlined = map[string]bool{}
	e.usedSpecs = map[string]bool{}
	e.notes = nil
	e.paths = 0
	e.curFn = fn
	e.curContract = c
	e.curProp = prop
	e.mode = "verify"
	if c.NoPanic {
		e.mode = "nopanic"
	}
	defer func() {
		if r := recover(); r != nil {
			u, ok := r.(unsupported)
			if !ok {
				panic(r)
			}
			rep.Unsupported = u.msg
			// the function could not be executed completely: its partial obligations are meaningless
			rep.Obls = []*Obligation{{Kind: "engine", Fn: key, Label: "unsupported", Unsupp: u.msg}}
			e.finishReport(rep)
		}
	}()
	st := e.newState()
	e.deadline = time.Now().Add(time.Duration(e.funcBudgetS) * time.Second)
	if os.Getenv("GOVC_DEBUG") != "" {
		t0 := time.Now()
		defer func() {
			fmt.Fprintf(os.Stderr, "[govc] %-70s %6.1fs paths=%d obls=%d\n", key, time.Since(t0).Seconds(), e.paths, len(e.obls))
		}()
	}
	var pkg *types.Package
	if fn.Pkg != nil {
		pkg = fn.Pkg.Pkg
	}
	// parameters
	args := make([]Val, len(fn.Params))
	vars := map[string]SVal{}
	for i, p := range fn.Params {
		args[i] = st.freshVal("p_"+p.Name(), p.Type())
		vars[p.Name()] = SVal{V: args[i], T: p.Type()}
		if i == 0 && fn.Signature.Recv() != nil {
			if _, isPtr := p.Type().Underlying().(*types.Pointer); isPtr {
				st.assume(Ne(args[i].T, IntLit(0))) // methods are verified for non-nil receivers
			}
		}
	}
	if len(c.Params) > 0 {
		off := 0
		if fn.Signature.Recv() != nil {
			off = 1
		}
		for i, n := range c.Params {
			if off+i < len(fn.Params) && fn.Params[off+i].Name() != n {
				e.emit(&Obligation{Kind: "contract", Fn: key, Label: "param-names", Unsupp: fmt.Sprintf("contract names parameter %d %q, code has %q", i, n, fn.Params[off+i].Name()), Line: fmt.Sprintf("%s:%d", c.File, c.Line)})
			}
		}
	}
	for _, r := range c.Requires {
		if len(r.Props) > 0 && prop != "" && !contains(r.Props, prop) {
			continue
		}
		env := &SpecEnv{e: e, pre: st, post: st, vars: vars, pkg: pkg, paramsFirst: true}
		st.assume(env.evalBool(r.E))
	}
	if fn.Synthetic == "package initializer" && fn.Pkg != nil {
		// the initializer runs once: verify the run in which the guard is still false
		st.heapSet("GV:"+fn.Pkg.Pkg.Path()+".init$guard", False())
	}
	e.entry = st.clone()
	e.entryParams = vars
	e.frame = nil
	if c.HasMod {
		e.frame = e.resolveFrame(c, vars, pkg)
	}
	rep.EntryPC = append([]*Term{}, st.pc...)
	fr := e.newFrame(fn, nil, c)
	e.topFrame = fr
	e.backCovers = nil
	fr.top = true
	outs := e.execFunc(fr, st, args)
	// postconditions
	resT := fn.Signature.Results()
	for _, o := range outs {
		if o.panics || o.st.dead {
			continue
		}
		rep.Returns++
		rep.CoverPCs = append(rep.CoverPCs, o.st.pc)
		rep.CoverSites = append(rep.CoverSites, o.site)
		rep.CoverTraces = append(rep.CoverTraces, o.st.trace)
		rep.CoverKinds = append(rep.CoverKinds, "return")
		var setVals []*Term
		ovars := map[string]SVal{}
		for k, v := range vars {
			ovars[k] = v
		}
		if resT.Len() == 1 {
			ovars["result"] = SVal{V: o.results[0], T: resT.At(0).Type()}
			ovars["result.0"] = ovars["result"]
		} else if resT.Len() > 1 {
			ovars["result"] = SVal{V: Val{Fs: o.results}, T: resT}
		}
		for i := 0; i < resT.Len(); i++ {
			ovars[fmt.Sprintf("result.%d", i)] = SVal{V: o.results[i], T: resT.At(i).Type()}
			if n := resT.At(i).Name(); n != "" && n != "_" {
				if _, clash := ovars[n]; !clash {
					ovars[n] = SVal{V: o.results[i], T: resT.At(i).Type()}
				}
			}
		}
		// ghost assignments of the contract take effect at the return, before the postconditions are read
		for _, sc := range c.Sets {
			g := e.db.Ghosts[sc.Ghost]
			if g == nil {
				unsupp("sets: unknown ghost %s", sc.Ghost)
			}
			env := &SpecEnv{e: e, pre: e.entry, post: e.entry, vars: ovars, pkg: pkg, paramsFirst: true, allocBefore: e.entry.allocTerm(), params: vars, exit: o.st}
			setVals = append(setVals, env.eval(sc.E).V.T)
		}
		for j, sc := range c.Sets {
			o.st.heapSet("G:"+sc.Ghost, setVals[j])
		}
		setVals = setVals[:0]
		for i, en := range c.Ensures {
			if len(en.Props) > 0 && prop != "" && !contains(en.Props, prop) {
				continue
			}
			if en.Assumed {
				e.note("clause `" + orStr(en.Label, en.Src) + "` of " + key + " is assumed (not checked against the body)")
				continue
			}
			env := &SpecEnv{e: e, pre: e.entry, post: o.st, vars: ovars, pkg: pkg, paramsFirst: true, allocBefore: e.entry.allocTerm(), params: vars, topFr: orFrame(o.fr, fr)}
			g := env.evalBool(en.E)
			e.emit(&Obligation{Kind: "post", Fn: key, Label: orStr(en.Label, fmt.Sprint(i+1)), PC: o.st.pc, Goal: g, Src: en.Src, Line: en.Line, Trace: o.st.trace})
		}
		if c.HasMod {
			e.frameObligations(c, key, o.st, ovars, pkg)
		}
	}
	// the body of every loop must be reachable too: a contradictory invariant (or a contract applied inside the
	// body that contradicts it) would make the inv-step obligations hold vacuously while all returns stay reachable
	for _, o := range e.backCovers {
		rep.CoverPCs = append(rep.CoverPCs, o.st.pc)
		rep.CoverSites = append(rep.CoverSites, o.site)
		rep.CoverTraces = append(rep.CoverTraces, o.st.trace)
		rep.CoverKinds = append(rep.CoverKinds, "loop")
	}
	rep.Obls = e.obls
	e.finishReport(rep)
	return rep
}

func contains(ss []string, s string) bool {
	for _, x := range ss {
		if x == s {
			return true
		}
	}
	return false
}

func (e *Engine) finishReport(rep *FuncReport) {
	rep.Paths = e.paths + 1
	for k := range e.unspecified {
		rep.Unspecified = append(rep.Unspecified, k)
	}
	sort.Strings(rep.Unspecified)
	for k := range e.inlined {
		rep.Inlined = append(rep.Inlined, k)
	}
	sort.Strings(rep.Inlined)
	for k := range e.usedSpecs {
		rep.UsedSpecs = append(rep.UsedSpecs, k)
	}
	sort.Strings(rep.UsedSpecs)
	rep.Notes = e.notes
}

// resolveFrame evaluates the modifies clause in the entry state.
func (e *Engine) resolveFrame(c *Contract, vars map[string]SVal, pkg *types.Package) *frameInfo {
	fi := &frameInfo{keys: map[string]bool{}}
	env := &SpecEnv{e: e, pre: e.entry, post: e.entry, vars: vars, pkg: pkg, paramsFirst: true}
	for _, m := range c.Modifies {
		m = strings.TrimSpace(m)
		switch {
		case m == "*":
			fi.all = true
		case m == "ghosts":
			fi.ghosts = true
		case strings.HasPrefix(m, "ghosts except "):
			for _, name := range e.ghostNames(m) {
				fi.keys["G:"+name] = true
			}
		case m == "syncmaps":
			fi.keys["SM:dom"], fi.keys["SM:tag"], fi.keys["SM:val"] = true, true, true
		case m == "lrucaches":
			lruDeclare()
			fi.keys["LRU:dom"], fi.keys["LRU:tag"], fi.keys["LRU:val"] = true, true, true
		case strings.HasPrefix(m, "* except "):
			// whole Go heap except the fields of one struct type: those get frame obligations
			fi.all = true
			for _, tn := range exceptTypes(m) {
				i := strings.LastIndex(tn, ".")
				if i < 0 {
					unsupp("modifies * except pkg.Type")
				}
				T := e.lookupType(tn[:i], tn[i+1:], pkg)
				if T == nil {
					unsupp("modifies * except %s: type not found", tn)
				}
				fi.except = append(fi.except, "F:"+typeKey(T)+".")
				for _, l := range leaves(T) {
					k := fieldKey(T, l.path)
					noteLeaf(k, l)
					if _, ok := heapSorts[k]; !ok {
						heapSorts[k] = arrSort(SInt, l.sort)
					}
					fi.exceptKeys = append(fi.exceptKeys, k)
				}
			}
		case m == "big":
			fi.keys["BigVal"] = true
		default:
			if _, ok := e.db.Ghosts[m]; ok {
				fi.keys["G:"+m] = true
				continue
			}
			ex, err := parseExpr(m)
			if err != nil {
				unsupp("modifies item %q: %v", m, err)
			}
			switch x := ex.(type) {
			case *ECall:
				v := env.eval(x.Args[0])
				switch x.Fn {
				case "elems":
					sl := v.T.Underlying().(*types.Slice)
					for _, l := range leaves(sl.Elem()) {
						fi.objs = append(fi.objs, frameObj{elemKey(sl.Elem(), l.path), v.V.Fs[0].T})
					}
				case "map":
					mt := v.T.Underlying().(*types.Map)
					fi.objs = append(fi.objs, frameObj{mapDomKey(mt), v.V.T}, frameObj{mapCardKey(mt), v.V.T})
					for _, l := range leaves(mt.Elem()) {
						fi.objs = append(fi.objs, frameObj{mapValKey(mt, l.path), v.V.T})
					}
				case "big":
					fi.objs = append(fi.objs, frameObj{"BigVal", v.V.T})
				case "dyn", "dynfresh":
					fi.all = true
				case "deref":
					if pt, ok := v.T.Underlying().(*types.Pointer); ok && v.V.T != nil {
						if kindOf(pt.Elem()) == kStruct {
							for _, l := range leaves(pt.Elem()) {
								fi.objs = append(fi.objs, frameObj{fieldKey(pt.Elem(), l.path), v.V.T})
							}
						} else {
							for _, l := range leaves(pt.Elem()) {
								fi.objs = append(fi.objs, frameObj{boxKey(pt.Elem(), l.path), v.V.T})
							}
						}
					}
				case "obj":
					pt, ok := v.T.Underlying().(*types.Pointer)
					if !ok {
						unsupp("obj() of non-pointer")
					}
					if isBigInt(pt.Elem()) {
						fi.objs = append(fi.objs, frameObj{"BigVal", v.V.T})
					} else {
						for _, l := range leaves(pt.Elem()) {
							fi.objs = append(fi.objs, frameObj{fieldKey(pt.Elem(), l.path), v.V.T})
						}
					}
				default:
					unsupp("modifies item %q", m)
				}
			case *ESel:
				root := rootIdent(x)
				if _, isVar := vars[root]; isVar {
					base := env.eval(x.X)
					pl, ft := env.fieldPlace(base, x.Name)
					if pl == nil || pl.Kind != PField {
						unsupp("modifies item %q is not a heap field", m)
					}
					bp := pathString(pl.Typ, pl.Path)
					for _, l := range leaves(ft) {
						fi.objs = append(fi.objs, frameObj{fieldKey(pl.Typ, bp+l.path), pl.Ref})
					}
				} else {
					parts := strings.Split(m, ".")
					T := e.lookupType(parts[0], parts[1], pkg)
					if T == nil {
						unsupp("modifies item %q", m)
					}
					path := "." + strings.Join(parts[2:], ".")
					for _, l := range leaves(T) {
						if l.path == path || strings.HasPrefix(l.path, path+".") || strings.HasPrefix(l.path, path+"#") {
							fi.keys[fieldKey(T, l.path)] = true
						}
					}
				}
			default:
				unsupp("modifies item %q", m)
			}
		}
	}
	return fi
}

// frameObligations: every heap component changed on this path and not named by modifies is unchanged for pre-existing objects.
func (e *Engine) frameObligations(c *Contract, key string, st *State, vars map[string]SVal, pkg *types.Package) {
	fi := e.frame
	if fi == nil {
		return
	}
	if fi.all && fi.ghosts && len(fi.exceptKeys) == 0 {
		return
	}
	if fi.all {
		// `modifies *` is the whole Go heap; ghost variables are spared when a caller applies such a contract,
		// so here every ghost the contract does not list must be shown unchanged
		for _, k := range sortedKeys(st.heap) {
			if !strings.HasPrefix(k, "G:") || strings.HasPrefix(k, "G:$") || isLogGhostKey(k) || fi.keys[k] || fi.ghosts {
				continue
			}
			final := st.heap[k]
			entry := e.entry.heapGet(k, heapSorts[k])
			if final == entry {
				continue
			}
			e.emit(&Obligation{Kind: "frame", Fn: key, Label: shortHeapKey(k), PC: st.pc, Goal: Eq(final, entry), Src: "ghost " + k[2:] + " is not listed in modifies and must be unchanged", Trace: st.trace})
		}
		// `* except T`: the fields of T stay as they were (for the objects that existed at entry)
		for _, k := range fi.exceptKeys {
			cur, inHeap := st.heap[k]
			_, wasHavocked := st.hv[k]
			if !inHeap && !wasHavocked {
				if st.epoch != 0 {
					// a plain `modifies *` callee (or a whole-heap loop) forgot this component
					e.emit(&Obligation{Kind: "frame", Fn: key, Label: shortHeapKey(k), PC: st.pc, Unsupp: "the whole heap was havocked on this path; " + k + " cannot be shown unchanged (modifies * except)", Trace: st.trace})
				}
				continue // never touched on this path
			}
			if inHeap && cur == e.entry.heapGet(k, heapSorts[k]) {
				continue
			}
			e.emit(&Obligation{Kind: "frame", Fn: key, Label: shortHeapKey(k), PC: st.pc, Goal: e.frameGoal(st, k), Src: "unchanged " + k + " (modifies * except)", Trace: st.trace})
		}
		for k := range st.hv {
			if strings.HasPrefix(k, "G:") && !strings.HasPrefix(k, "G:$") && !isLogGhostKey(k) && !fi.keys[k] && !fi.ghosts {
				if _, inHeap := st.heap[k]; !inHeap {
					if srt, known := heapSorts[k]; known {
						e.emit(&Obligation{Kind: "frame", Fn: key, Label: shortHeapKey(k), PC: st.pc, Goal: Eq(st.heapGet(k, srt), e.entry.heapGet(k, srt)), Src: "ghost " + k[2:] + " is not listed in modifies and must be unchanged", Trace: st.trace})
					}
				}
			}
		}
		return
	}
	if st.epoch != 0 {
		e.emit(&Obligation{Kind: "frame", Fn: key, Label: "whole-heap", PC: st.pc, Unsupp: "an unspecified callee or loop havocked the whole heap; frame cannot be established", Trace: st.trace})
		return
	}
	done := map[string]bool{}
	for _, k := range sortedKeys(st.heap) {
		if fi.keys[k] || strings.HasPrefix(k, "G:$") || isLogGhostKey(k) {
			continue // (G:$... are model-internal ghosts, e.g. the current state of an fsm object)
		}
		final := st.heap[k]
		sortK := heapSorts[k]
		entry := e.entry.heapGet(k, sortK)
		if final == entry {
			continue
		}
		done[k] = true
		e.emit(&Obligation{Kind: "frame", Fn: key, Label: shortHeapKey(k), PC: st.pc, Goal: e.frameGoal(st, k), Src: "unchanged " + k, Trace: st.trace})
	}
	for k := range st.hv {
		if !fi.keys[k] && !done[k] && !isLogGhostKey(k) {
			if _, known := heapSorts[k]; known {
				e.emit(&Obligation{Kind: "frame", Fn: key, Label: shortHeapKey(k), PC: st.pc, Goal: e.frameGoal(st, k), Src: "unchanged " + k, Trace: st.trace})
			}
		}
	}
}

// Log ghosts (declared with a name that starts with "Log", integer counters) count events of a run - how often a
// cross-contract call of some kind was asked for. They are only ever incremented (by the trusted spec of the call they
// count), carry no frame obligation, and a callee that gives up all ghosts (`modifies *, ghosts`) is assumed not to
// decrease them. A caller may therefore LOSE increments (a callee whose contract does not list the counter is taken to
// leave it alone) but never gains one: clauses of the form "the counter grew" (a call WAS made) are sound, clauses that
// bound a counter from above are not and must not be written.
func isLogGhostKey(k string) bool { return strings.HasPrefix(k, "G:Log") }

func shortHeapKey(k string) string {
	// F:github.com/x/y/pkg.Type.f -> pkg.Type.f
	i := strings.Index(k, ":")
	if i < 0 {
		return k
	}
	head, rest := k[:i], k[i+1:]
	if j := strings.LastIndex(rest, "/"); j >= 0 {
		rest = rest[j+1:]
	}
	return head + ":" + rest
}

func orFrame(a, b *Frame) *Frame {
	if a != nil {
		return a
	}
	return b
}

func sortedHv(m map[string]int) []string {
	var ks []string
	for k := range m {
		ks = append(ks, k)
	}
	sort.Strings(ks)
	return ks
}
