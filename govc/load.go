package main

import (
	"fmt"
	"go/token"
	"go/types"
	"os"
	"sort"
	"strings"

	"golang.org/x/tools/go/packages"
	"golang.org/x/tools/go/ssa"
	"golang.org/x/tools/go/ssa/ssautil"
)

const repoMod = "github.com/meshplus/bitxhub"

// World is everything loaded from /repo for one run.
type World struct {
	Fset  *token.FileSet
	Pkgs  []*packages.Package
	Prog  *ssa.Program
	SSA   map[string]*ssa.Package // by import path
	ByPkg map[string]*packages.Package
	// all type-checked packages reachable (for constant / type lookup in specs)
	AllTypes map[string]*types.Package
	RepoDir  string
}

func repoDir() string {
	if d := os.Getenv("GOVC_REPO"); d != "" {
		return d
	}
	return "/repo"
}

// loadWorld loads the given package patterns (relative to repoMod) from the
// working tree with -tags verif and builds NaiveForm SSA for them.
func loadWorld(patterns []string, overlay map[string][]byte) (*World, error) {
	fset := token.NewFileSet()
	cfg := &packages.Config{
		Mode: packages.NeedName | packages.NeedFiles | packages.NeedCompiledGoFiles |
			packages.NeedSyntax | packages.NeedTypes | packages.NeedTypesInfo |
			packages.NeedDeps | packages.NeedImports | packages.NeedTypesSizes,
		Dir:        repoDir(),
		Fset:       fset,
		BuildFlags: []string{"-tags=verif", "-mod=mod"},
		Env: append(os.Environ(), "GOFLAGS=-mod=mod", "GOPROXY=off", "GOSUMDB=off",
			"GOTOOLCHAIN=local"),
		Overlay: overlay,
	}
	var full []string
	for _, p := range patterns {
		if strings.HasPrefix(p, "./") || strings.Contains(p, ".") && strings.Contains(p, "/") && !strings.HasPrefix(p, "internal") && !strings.HasPrefix(p, "pkg") {
			full = append(full, p)
		} else {
			full = append(full, repoMod+"/"+p)
		}
	}
	pkgs, err := packages.Load(cfg, full...)
	if err != nil {
		return nil, err
	}
	var errs []string
	for _, p := range pkgs {
		for _, e := range p.Errors {
			errs = append(errs, e.Error())
		}
	}
	if len(errs) > 0 {
		return nil, fmt.Errorf("package load errors (the tree does not type-check):\n%s", strings.Join(errs, "\n"))
	}
	prog, spkgs := ssautil.Packages(pkgs, ssa.NaiveForm|ssa.GlobalDebug)
	w := &World{Fset: fset, Pkgs: pkgs, Prog: prog, SSA: map[string]*ssa.Package{},
		ByPkg: map[string]*packages.Package{}, AllTypes: map[string]*types.Package{}, RepoDir: repoDir()}
	for i, p := range pkgs {
		if spkgs[i] == nil {
			return nil, fmt.Errorf("no SSA for %s", p.PkgPath)
		}
		spkgs[i].Build()
		w.SSA[p.PkgPath] = spkgs[i]
		w.ByPkg[p.PkgPath] = p
	}
	packages.Visit(pkgs, nil, func(p *packages.Package) {
		if p.Types != nil {
			w.AllTypes[p.PkgPath] = p.Types
		}
	})
	return w, nil
}

// shortPkg returns the last path element of an import path.
func shortPkg(path string) string {
	if i := strings.LastIndex(path, "/"); i >= 0 {
		return path[i+1:]
	}
	return path
}

// FindFunc resolves "pkgpath:Func" or "pkgpath:(*T).M" / "pkgpath:T.M".
func (w *World) FindFunc(pkgPath, name string) *ssa.Function {
	sp := w.SSA[pkgPath]
	if sp == nil {
		return nil
	}
	if strings.HasPrefix(name, "(*") {
		end := strings.Index(name, ")")
		tn, mn := name[2:end], name[end+2:]
		obj := sp.Pkg.Scope().Lookup(tn)
		if obj == nil {
			return nil
		}
		ms := w.Prog.MethodSets.MethodSet(types.NewPointer(obj.Type()))
		for i := 0; i < ms.Len(); i++ {
			if ms.At(i).Obj().Name() == mn {
				return w.Prog.MethodValue(ms.At(i))
			}
		}
		return nil
	}
	if i := strings.Index(name, "."); i > 0 {
		tn, mn := name[:i], name[i+1:]
		obj := sp.Pkg.Scope().Lookup(tn)
		if obj == nil {
			return nil
		}
		ms := w.Prog.MethodSets.MethodSet(obj.Type())
		for i := 0; i < ms.Len(); i++ {
			if ms.At(i).Obj().Name() == mn {
				return w.Prog.MethodValue(ms.At(i))
			}
		}
		return nil
	}
	return sp.Func(name)
}

// funcKey is the canonical name used in contracts: "pkg.Func", "pkg.(*T).M", "pkg.T.M".
func funcKey(fn *ssa.Function) string {
	if fn == nil {
		return "<nil>"
	}
	if fn.Parent() != nil {
		// closure: parent$N
		return funcKey(fn.Parent()) + "$" + strings.TrimPrefix(fn.Name(), fn.Parent().Name()+"$")
	}
	pkg := ""
	if fn.Pkg != nil {
		pkg = fn.Pkg.Pkg.Name()
	} else if fn.Object() != nil && fn.Object().Pkg() != nil {
		pkg = fn.Object().Pkg().Name()
	}
	if recv := fn.Signature.Recv(); recv != nil {
		t := recv.Type()
		ptr := false
		if p, ok := t.(*types.Pointer); ok {
			t = p.Elem()
			ptr = true
		}
		tn := "?"
		if n, ok := t.(*types.Named); ok {
			tn = n.Obj().Name()
			if n.Obj().Pkg() != nil {
				pkg = n.Obj().Pkg().Name()
			}
		}
		if ptr {
			return fmt.Sprintf("%s.(*%s).%s", pkg, tn, fn.Name())
		}
		return fmt.Sprintf("%s.%s.%s", pkg, tn, fn.Name())
	}
	return pkg + "." + fn.Name()
}

// calleeKey names a callee (static or interface method) for contract lookup.
func calleeKeyOfMethod(m *types.Func) string {
	sig := m.Type().(*types.Signature)
	pkg := ""
	if m.Pkg() != nil {
		pkg = m.Pkg().Name()
	}
	if recv := sig.Recv(); recv != nil {
		t := recv.Type()
		ptr := false
		if p, ok := t.(*types.Pointer); ok {
			t = p.Elem()
			ptr = true
		}
		if n, ok := t.(*types.Named); ok {
			if n.Obj().Pkg() != nil {
				pkg = n.Obj().Pkg().Name()
			}
			if ptr {
				return fmt.Sprintf("%s.(*%s).%s", pkg, n.Obj().Name(), m.Name())
			}
			return fmt.Sprintf("%s.%s.%s", pkg, n.Obj().Name(), m.Name())
		}
	}
	return pkg + "." + m.Name()
}

func dumpSSA(w *World, pkgPath, name string) {
	fn := w.FindFunc(pkgPath, name)
	if fn == nil {
		fmt.Fprintf(os.Stderr, "no such function %s:%s\n", pkgPath, name)
		sp := w.SSA[pkgPath]
		if sp != nil {
			var names []string
			for n := range sp.Members {
				names = append(names, n)
			}
			sort.Strings(names)
			fmt.Fprintln(os.Stderr, strings.Join(names, " "))
		}
		os.Exit(2)
	}
	fn.WriteTo(os.Stdout)
	for _, a := range fn.AnonFuncs {
		a.WriteTo(os.Stdout)
	}
}
