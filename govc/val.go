package main

import (
	"fmt"
	"go/types"
	"math/big"
	"strings"
)

// Val is a symbolic Go value. Scalars carry T; composites carry Fs:
//
//	slice      -> Fs = [arr, off, len, cap]           (except []byte, a Seq scalar)
//	interface  -> Fs = [tag, val]
//	struct     -> Fs = one Val per field
//	tuple      -> Fs = one Val per component
//
// Address-valued SSA registers carry P (a place) and no term.
type Val struct {
	T   *Term
	Fs  []Val
	P   *Place
	Clo *Closure
}

type Closure struct {
	Fn       interface{} // *ssa.Function
	Bindings []Val
}

type PlaceKind int

const (
	PLocal  PlaceKind = iota // a frame-owned cell
	PField                   // field path of a heap struct object
	PElem                    // element of a slice backing array
	PBox                     // pointee of a pointer to a non-struct
	PGlobal                  // package-level variable
)

type Place struct {
	Kind PlaceKind
	Cell int        // PLocal
	Path []int      // field path inside the cell value / heap struct
	Ref  *Term      // PField, PBox: object ref ; PElem: backing array
	Idx  *Term      // PElem: absolute index
	Typ  types.Type // type of the object the path starts in (struct type for PField, elem type for PElem/PBox, var type for PLocal/PGlobal)
	Name string     // PGlobal
}

func scalar(t *Term) Val { return Val{T: t} }

// ---------------------------------------------------------------------
// Type classification

type kind int

const (
	kInt kind = iota
	kBool
	kSeq   // string, []byte, [N]byte
	kRef   // pointer, map, chan, func, unsafe pointer
	kSlice // non-byte slices
	kIface
	kStruct
	kTuple
	kFloat  // uninterpreted Int-sorted token
	kOpaque // unsupported composite (arrays of non-bytes...) : one Int token
)

func isByte(t types.Type) bool {
	b, ok := t.Underlying().(*types.Basic)
	return ok && (b.Kind() == types.Uint8)
}

func kindOf(t types.Type) kind {
	switch u := t.Underlying().(type) {
	case *types.Basic:
		switch {
		case u.Info()&types.IsBoolean != 0:
			return kBool
		case u.Info()&types.IsInteger != 0:
			return kInt
		case u.Info()&types.IsString != 0:
			return kSeq
		case u.Info()&types.IsFloat != 0, u.Info()&types.IsComplex != 0:
			return kFloat
		case u.Kind() == types.UnsafePointer:
			return kRef
		case u.Kind() == types.UntypedNil:
			return kRef
		}
		return kOpaque
	case *types.Pointer, *types.Map, *types.Chan, *types.Signature:
		return kRef
	case *types.Slice:
		if isByte(u.Elem()) {
			return kSeq
		}
		return kSlice
	case *types.Array:
		if isByte(u.Elem()) {
			return kSeq
		}
		return kOpaque
	case *types.Interface:
		return kIface
	case *types.Struct:
		return kStruct
	case *types.Tuple:
		return kTuple
	}
	return kOpaque
}

func sortOfKind(k kind) string {
	switch k {
	case kBool:
		return SBool
	case kSeq:
		return SSeq
	default:
		return SInt
	}
}

// intRange returns the inclusive range of an integer type.
func intRange(t types.Type) (lo, hi *big.Int) {
	b := t.Underlying().(*types.Basic)
	bits := 64
	signed := true
	switch b.Kind() {
	case types.Int8:
		bits = 8
	case types.Int16:
		bits = 16
	case types.Int32, types.UntypedRune:
		bits = 32
	case types.Int64, types.Int, types.UntypedInt:
		bits = 64
	case types.Uint8:
		bits, signed = 8, false
	case types.Uint16:
		bits, signed = 16, false
	case types.Uint32:
		bits, signed = 32, false
	case types.Uint64, types.Uint, types.Uintptr:
		bits, signed = 64, false
	}
	one := big.NewInt(1)
	if signed {
		hi = new(big.Int).Sub(new(big.Int).Lsh(one, uint(bits-1)), one)
		lo = new(big.Int).Neg(new(big.Int).Lsh(one, uint(bits-1)))
	} else {
		lo = big.NewInt(0)
		hi = new(big.Int).Sub(new(big.Int).Lsh(one, uint(bits)), one)
	}
	return
}

func typeKey(t types.Type) string {
	return types.TypeString(t, func(p *types.Package) string { return p.Path() })
}

// leaf describes one scalar component of a type.
type leaf struct {
	path string // e.g. ".f.g#len"
	sort string
	typ  types.Type // Go type of the leaf when it is a plain scalar (nil for slice/iface parts)
}

// leaves flattens a type into its scalar components (in Val order).
func leaves(t types.Type) []leaf {
	var out []leaf
	var rec func(t types.Type, p string)
	rec = func(t types.Type, p string) {
		switch kindOf(t) {
		case kSlice:
			out = append(out, leaf{p + "#arr", SInt, nil}, leaf{p + "#off", SInt, nil}, leaf{p + "#len", SInt, nil}, leaf{p + "#cap", SInt, nil})
		case kIface:
			out = append(out, leaf{p + "#tag", SInt, nil}, leaf{p + "#val", SInt, nil})
		case kStruct:
			st := t.Underlying().(*types.Struct)
			for i := 0; i < st.NumFields(); i++ {
				rec(st.Field(i).Type(), p+"."+st.Field(i).Name())
			}
		case kTuple:
			tp := t.(*types.Tuple)
			for i := 0; i < tp.Len(); i++ {
				rec(tp.At(i).Type(), fmt.Sprintf("%s.%d", p, i))
			}
		default:
			out = append(out, leaf{p, sortOfKind(kindOf(t)), t})
		}
	}
	rec(t, "")
	return out
}

// flat returns the scalar terms of v in leaf order.
func (v Val) flat() []*Term {
	if v.Fs == nil {
		return []*Term{v.T}
	}
	var out []*Term
	for _, f := range v.Fs {
		out = append(out, f.flat()...)
	}
	return out
}

// build reconstructs a Val of type t from leaf terms.
func build(t types.Type, ts []*Term) Val {
	i := 0
	var rec func(t types.Type) Val
	rec = func(t types.Type) Val {
		switch kindOf(t) {
		case kSlice:
			v := Val{Fs: []Val{{T: ts[i]}, {T: ts[i+1]}, {T: ts[i+2]}, {T: ts[i+3]}}}
			i += 4
			return v
		case kIface:
			v := Val{Fs: []Val{{T: ts[i]}, {T: ts[i+1]}}}
			i += 2
			return v
		case kStruct:
			st := t.Underlying().(*types.Struct)
			v := Val{Fs: make([]Val, st.NumFields())}
			for j := 0; j < st.NumFields(); j++ {
				v.Fs[j] = rec(st.Field(j).Type())
			}
			if st.NumFields() == 0 {
				v.Fs = []Val{}
			}
			return v
		case kTuple:
			tp := t.(*types.Tuple)
			v := Val{Fs: make([]Val, tp.Len())}
			for j := 0; j < tp.Len(); j++ {
				v.Fs[j] = rec(tp.At(j).Type())
			}
			return v
		default:
			v := Val{T: ts[i]}
			i++
			return v
		}
	}
	return rec(t)
}

var nilBytes = func() *Term { return Sym("nilbytes", SSeq) }

// zeroLeaf is the zero value term for a leaf.
func zeroLeaf(l leaf) *Term {
	switch l.sort {
	case SBool:
		return False()
	case SSeq:
		if l.typ != nil {
			if _, ok := l.typ.Underlying().(*types.Slice); ok {
				return nilBytes()
			}
			if _, ok := l.typ.Underlying().(*types.Array); ok {
				return Sym("zeroarr", SSeq)
			}
		}
		return SeqLit("")
	default:
		return IntLit(0)
	}
}

func zeroVal(t types.Type) Val {
	ls := leaves(t)
	ts := make([]*Term, len(ls))
	for i, l := range ls {
		ts[i] = zeroLeaf(l)
	}
	return build(t, ts)
}

// subType follows a field path from a struct type.
func subType(t types.Type, path []int) types.Type {
	for _, i := range path {
		switch u := t.Underlying().(type) {
		case *types.Struct:
			t = u.Field(i).Type()
		case *types.Tuple:
			t = u.At(i).Type()
		default:
			panic(fmt.Sprintf("subType: %s has no field %d", t, i))
		}
	}
	return t
}

// pathString renders a field path from a struct type as ".f.g".
func pathString(t types.Type, path []int) string {
	var sb strings.Builder
	for _, i := range path {
		st := t.Underlying().(*types.Struct)
		sb.WriteString("." + st.Field(i).Name())
		t = st.Field(i).Type()
	}
	return sb.String()
}

func (v Val) sub(path []int) Val {
	for _, i := range path {
		v = v.Fs[i]
	}
	return v
}

// withSub returns a copy of v with the component at path replaced.
func (v Val) withSub(path []int, nv Val) Val {
	if len(path) == 0 {
		return nv
	}
	out := Val{Fs: append([]Val{}, v.Fs...)}
	out.Fs[path[0]] = v.Fs[path[0]].withSub(path[1:], nv)
	return out
}

func iteVal(c *Term, a, b Val) Val {
	if a.Fs == nil && b.Fs == nil {
		if a.T == nil || b.T == nil {
			return a
		}
		return Val{T: Ite(c, a.T, b.T)}
	}
	out := Val{Fs: make([]Val, len(a.Fs))}
	for i := range a.Fs {
		out.Fs[i] = iteVal(c, a.Fs[i], b.Fs[i])
	}
	return out
}

// eqVal is componentwise equality.
func eqVal(a, b Val) *Term {
	fa, fb := a.flat(), b.flat()
	if len(fa) != len(fb) {
		panic("eqVal arity")
	}
	var cs []*Term
	for i := range fa {
		cs = append(cs, Eq(fa[i], fb[i]))
	}
	return And(cs...)
}

// type ids for interface tags
var typeIDs = map[string]int64{}
var typeIDTypes = map[int64]types.Type{}

func typeID(t types.Type) int64 {
	k := typeKey(t)
	if id, ok := typeIDs[k]; ok {
		return id
	}
	id := int64(len(typeIDs) + 1)
	typeIDs[k] = id
	typeIDTypes[id] = t
	return id
}
