package main

import (
	"fmt"
	"go/token"
	"go/types"
	"sort"
	"strings"

	"golang.org/x/tools/go/ssa"
)

const maxInlineDepth = 8

// call executes a call site. It returns the result value and, when the call
// forked the path, the list of continuation states (nil: continue with st).
func (e *Engine) call(fr *Frame, st *State, ins ssa.Instruction, cc *ssa.CallCommon, d *deferred) (Val, []*State) {
	// arguments
	var args []Val
	if d != nil {
		args = d.args
	} else {
		for _, a := range cc.Args {
			args = append(args, e.val(fr, st, a))
		}
	}
	resT := cc.Signature().Results()
	var resType types.Type = resT
	if resT.Len() == 1 {
		resType = resT.At(0).Type()
	}

	if cc.IsInvoke() {
		var recv Val
		if d != nil {
			recv = d.fnv
		} else {
			recv = e.val(fr, st, cc.Value)
		}
		key := e.invokeKey(cc)
		// receiver must be non-nil
		e.check(fr, st, ins, Ne(recv.Fs[0].T, IntLit(0)), "nil interface method call")
		all := append([]Val{recv}, args...)
		// dynamic dispatch to a repo implementer when the tag is a known constant
		if c := e.db.Contracts[key]; c != nil {
			return e.callByContract(fr, st, ins, c, key, cc, all, resType, true)
		}
		return e.defaultHavoc(fr, st, key, cc, all, resType), nil
	}

	switch fv := cc.Value.(type) {
	case *ssa.Builtin:
		if fv.Name() == "append" {
			return e.appendOp(fr, st, cc, args)
		}
		return e.builtin(fr, st, ins, fv, cc, args, resType), nil
	case *ssa.Function:
		return e.callFunc(fr, st, ins, fv, nil, cc, args, resType)
	case *ssa.MakeClosure:
		clo := e.val(fr, st, fv)
		return e.callFunc(fr, st, ins, fv.Fn.(*ssa.Function), clo.Clo.Bindings, cc, args, resType)
	default:
		var v Val
		if d != nil && (d.fnv.T != nil || d.fnv.Clo != nil) {
			v = d.fnv
		} else {
			v = e.val(fr, st, cc.Value)
		}
		if v.Clo != nil {
			fn := v.Clo.Fn.(*ssa.Function)
			return e.callFunc(fr, st, ins, fn, v.Clo.Bindings, cc, args, resType)
		}
		// a value of a named function type may have a contract under the type's name (agency.ApplyTxFunc)
		if n, ok := cc.Value.Type().(*types.Named); ok && n.Obj().Pkg() != nil {
			k := n.Obj().Pkg().Name() + "." + n.Obj().Name()
			if c := e.db.Contracts[k]; c != nil {
				return e.callByContract(fr, st, ins, c, k, cc, args, resType, false)
			}
		}
		return e.defaultHavoc(fr, st, "func-value:"+cc.Value.Name(), cc, args, resType), nil
	}
}

// invokeKey names an interface method for contract lookup: the static interface type of the
// receiver first ("ledger.StateLedger.GetBalance"), then the interface that declares the method.
func (e *Engine) invokeKey(cc *ssa.CallCommon) string {
	if n, ok := cc.Value.Type().(*types.Named); ok && n.Obj().Pkg() != nil {
		k := n.Obj().Pkg().Name() + "." + n.Obj().Name() + "." + cc.Method.Name()
		if _, has := e.db.Contracts[k]; has {
			return k
		}
		dk := calleeKeyOfMethod(cc.Method)
		if _, has := e.db.Contracts[dk]; has {
			return dk
		}
		return k
	}
	return calleeKeyOfMethod(cc.Method)
}

func (e *Engine) inRepo(fn *ssa.Function) bool {
	if fn.Pkg != nil {
		_, ok := e.w.SSA[fn.Pkg.Pkg.Path()]
		return ok && len(fn.Blocks) > 0
	}
	// synthetic wrappers (bound methods, promoted-method wrappers) have no package but have bodies
	return len(fn.Blocks) > 0
}

func (e *Engine) onStack(fr *Frame, fn *ssa.Function) bool {
	for f := fr; f != nil; f = f.parent {
		if f.fn == fn {
			return true
		}
	}
	return false
}

func (e *Engine) callFunc(fr *Frame, st *State, ins ssa.Instruction, fn *ssa.Function, bindings []Val, cc *ssa.CallCommon, args []Val, resType types.Type) (Val, []*State) {
	key := funcKey(fn)
	if v, ok := e.intrinsic(fr, st, ins, key, fn, args, resType); ok {
		return v, nil
	}
	if key == "retry.Retry" && len(args) >= 1 && args[0].Clo != nil {
		if _, has := e.db.Contracts[key]; !has {
			return e.retryModel(fr, st, args, resType)
		}
	}
	if key == "sort.Search" && len(args) == 2 && args[1].Clo != nil {
		if v, sts, ok := e.sortSearch(fr, st, args); ok {
			return v, sts
		}
	}
	if len(key) > 4 && key[:4] == "fsm." {
		if v, sts, ok := e.fsmIntrinsic(fr, st, ins, key, args, resType); ok {
			return v, sts
		}
	}
	c := e.db.Contracts[key]
	if fn.Parent() != nil && c == nil {
		// closure: contract (invariants) lives under the parent's contract
		c = e.closureContract(fn)
	}
	if c != nil && !c.Inline && fn.Parent() == nil {
		return e.callByContract(fr, st, ins, c, key, cc, args, resType, false)
	}
	if e.inRepo(fn) && fr.depth < maxInlineDepth && !e.onStack(fr, fn) {
		return e.inline(fr, st, fn, bindings, c, args, resType)
	}
	return e.defaultHavoc(fr, st, key, cc, args, resType), nil
}

func (e *Engine) closureContract(fn *ssa.Function) *Contract {
	p := fn.Parent()
	pc := e.db.Contracts[funcKey(p)]
	if p.Parent() != nil {
		pc = e.closureContract(p)
	}
	if pc == nil {
		return nil
	}
	for i, a := range p.AnonFuncs {
		if a == fn {
			return pc.Closures[i+1]
		}
	}
	return nil
}

func (e *Engine) inline(fr *Frame, st *State, fn *ssa.Function, bindings []Val, c *Contract, args []Val, resType types.Type) (Val, []*State) {
	e.inlined[funcKey(fn)] = true
	nf := e.newFrame(fn, fr, c)
	nf.free = bindings
	outs := e.execFunc(nf, st, args)
	var normal []Outcome
	for _, o := range outs {
		if !o.panics && !o.st.dead {
			normal = append(normal, o)
		}
	}
	pack := func(res []Val) Val {
		if len(res) == 1 {
			return res[0]
		}
		return Val{Fs: res}
	}
	if len(normal) == 0 {
		st.dead = true
		return Val{}, []*State{}
	}
	if len(normal) > 1 && e.mergeInlined {
		sts := make([]*State, len(normal))
		rs := make([]Val, len(normal))
		for i, o := range normal {
			sts[i], rs[i] = o.st, pack(o.results)
		}
		sts, rs = mergeOutcomes(sts, rs)
		normal = normal[:0]
		for i := range sts {
			r := rs[i]
			var results []Val
			if tp, ok := resType.(*types.Tuple); ok && tp.Len() != 1 {
				results = r.Fs
			} else {
				results = []Val{r}
			}
			normal = append(normal, Outcome{st: sts[i], results: results})
		}
	}
	if len(normal) == 1 {
		if normal[0].st == st {
			return pack(normal[0].results), nil
		}
		return pack(normal[0].results), []*State{normal[0].st}
	}
	// several outcomes: bind results through fresh symbols so registers agree on all paths
	if tp, ok := resType.(*types.Tuple); ok && tp.Len() == 0 {
		sts := make([]*State, len(normal))
		for i, o := range normal {
			sts[i] = o.st
		}
		return Val{Fs: []Val{}}, sts
	}
	ls := leaves(resType)
	ts := make([]*Term, len(ls))
	for i, l := range ls {
		ts[i] = Fresh("ret_"+fn.Name()+l.path, l.sort)
	}
	r := build(resType, ts)
	sts := make([]*State, len(normal))
	for i, o := range normal {
		o.st.assume(eqVal(r, pack(o.results)))
		o.st.typeFacts(r, resType)
		sts[i] = o.st
	}
	return r, sts
}

// ---------------------------------------------------------------------
// by-contract calls

func (e *Engine) paramNames(c *Contract, sig *types.Signature, invoke bool) []string {
	var names []string
	if sig.Recv() != nil || invoke {
		n := "self"
		if sig.Recv() != nil && sig.Recv().Name() != "" && sig.Recv().Name() != "_" && !invoke {
			n = sig.Recv().Name()
		}
		names = append(names, n)
	}
	for i := 0; i < sig.Params().Len(); i++ {
		n := sig.Params().At(i).Name()
		if n == "" || n == "_" {
			n = fmt.Sprintf("arg%d", i)
		}
		names = append(names, n)
	}
	if c != nil && len(c.Params) > 0 {
		off := len(names) - sig.Params().Len()
		for i, p := range c.Params {
			if off+i < len(names) {
				names[off+i] = p
			}
		}
	}
	return names
}

func (e *Engine) callByContract(fr *Frame, st *State, ins ssa.Instruction, c *Contract, key string, cc *ssa.CallCommon, args []Val, resType types.Type, invoke bool) (Val, []*State) {
	e.usedSpecs[key] = true
	e.callFrame = fr
	e.curCallee = nil
	if !invoke {
		e.curCallee = cc.StaticCallee()
	}
	sig := cc.Signature()
	var fullSig *types.Signature = sig
	var ptypes []types.Type
	if invoke {
		ptypes = append(ptypes, cc.Value.Type())
	} else if fn, ok := cc.Value.(*ssa.Function); ok {
		fullSig = fn.Signature
		if fullSig.Recv() != nil {
			ptypes = append(ptypes, fullSig.Recv().Type())
		}
	}
	for i := 0; i < sig.Params().Len(); i++ {
		ptypes = append(ptypes, sig.Params().At(i).Type())
	}
	names := e.paramNames(c, fullSig, invoke)
	if len(names) != len(args) {
		// receiver-less static call of a method value etc.
		names = names[len(names)-len(args):]
		ptypes = ptypes[len(ptypes)-len(args):]
	}
	vars := map[string]SVal{}
	isPlace := func(v Val) bool {
		return v.P != nil && v.T == nil && v.Fs == nil && !((v.P.Kind == PField || v.P.Kind == PBox) && len(v.P.Path) == 0)
	}
	var as []*Term
	for i, n := range names {
		if isPlace(args[i]) {
			// an interior / local pointer: the contract may only use it through deref()
			vars[n] = SVal{V: args[i], T: ptypes[i]}
			continue
		}
		vars[n] = SVal{V: e.materialize(args[i], ptypes[i]), T: ptypes[i]}
		as = append(as, vars[n].V.flat()...)
	}
	return e.applyContract(fr, st, ins, c, key, vars, resType, as), nil
}

// applyContract: check requires, havoc modifies, assume ensures; returns the (fresh) result.
func (e *Engine) applyContract(fr *Frame, st *State, ins ssa.Instruction, c *Contract, key string, vars map[string]SVal, resType types.Type, argTerms []*Term) Val {
	var pkg *types.Package
	if e.curFn != nil && e.curFn.Pkg != nil {
		pkg = e.curFn.Pkg.Pkg
	}
	// preconditions
	for _, r := range c.Requires {
		if len(r.Props) > 0 && !contains(r.Props, e.curProp) {
			continue
		}
		env := &SpecEnv{e: e, pre: st, post: st, vars: vars, pkg: pkg}
		g := env.evalBool(r.E)
		if st.known(g) == 1 {
			continue // already established on this path (e.g. by an earlier call site)
		}
		e.emit(&Obligation{Kind: "pre-call", Fn: funcKey(e.curFn), Label: key + ":" + orStr(r.Label, r.Src), PC: st.pc, Goal: g, Src: r.Src, Line: e.pos(ins), Trace: st.trace})
		st.assume(g)
	}
	old := st.clone()
	allocBefore := st.allocTerm()
	st.allocN += c.Allocates
	// the callee's parameters as bound at this call site, before result names shadow any of them (read through param(x))
	params := make(map[string]SVal, len(vars))
	for k, v := range vars {
		params[k] = v
	}
	// frame
	if !c.HasMod {
		if !c.Trusted && !c.Pure {
			e.note("contract of " + key + " has no modifies clause: treated as modifying nothing")
		}
	} else {
		env := &SpecEnv{e: e, pre: old, post: old, vars: vars, pkg: pkg}
		for _, m := range c.Modifies {
			e.havocItem(st, env, m)
		}
	}
	// results
	var res Val
	if tp, ok := resType.(*types.Tuple); ok && tp.Len() == 0 {
		res = Val{Fs: []Val{}}
	} else {
		// leave room for objects the callee may allocate
		st.allocN += countRefs(resType) + 1
		res = st.freshVal("r_"+shortName(key), resType)
	}
	if tp, ok := resType.(*types.Tuple); ok {
		for i := 0; i < tp.Len(); i++ {
			vars[fmt.Sprintf("result.%d", i)] = SVal{V: res.Fs[i], T: tp.At(i).Type()}
			if n := tp.At(i).Name(); n != "" && n != "_" {
				if _, clash := vars[n]; !clash {
					vars[n] = SVal{V: res.Fs[i], T: tp.At(i).Type()}
				}
			}
		}
		vars["result"] = SVal{V: res, T: tp}
	} else {
		vars["result"] = SVal{V: res, T: resType}
	}
	for _, en := range c.Ensures {
		if strings.Contains(en.Src, "local(") {
			continue // a clause over the callee's locals is an obligation of the callee only; callers learn nothing from it
		}
		env := &SpecEnv{e: e, pre: old, post: st, vars: vars, pkg: pkg, allocBefore: allocBefore, params: params}
		st.assume(env.evalBool(en.E))
	}
	for _, sc := range c.Sets {
		// ghost assignment at exit: value computed over the post-state of the Go heap and the pre-state of ghosts named old()
		// the assigned value is computed over the state in which the callee was entered (its inputs) and the results
		env := &SpecEnv{e: e, pre: old, post: old, vars: vars, pkg: pkg, allocBefore: allocBefore, exit: st, params: params}
		v := env.eval(sc.E)
		g := e.db.Ghosts[sc.Ghost]
		if g == nil {
			unsupp("sets: unknown ghost %s", sc.Ghost)
		}
		cur := st.heapGet("G:"+sc.Ghost, ghostSort(g.Type))
		st.assume(Eq(cur, v.V.T))
	}
	if c.Pure {
		// deterministic function of its scalar arguments
		ls := leaves(resType)
		rs := res.flat()
		for i, l := range ls {
			st.assume(Eq(rs[i], App("fn$"+key+l.path, l.sort, argTerms...)))
		}
	}
	return res
}

func orStr(a, b string) string {
	if a != "" {
		return a
	}
	return b
}

func shortName(key string) string {
	if i := strings.LastIndex(key, "."); i >= 0 {
		return key[i+1:]
	}
	return key
}

func countRefs(t types.Type) int {
	n := 0
	for _, l := range leaves(t) {
		if l.typ != nil && kindOf(l.typ) == kRef {
			n++
		}
		if strings.HasSuffix(l.path, "#arr") || strings.HasSuffix(l.path, "#val") {
			n++
		}
	}
	return n
}

// ghostNames expands `ghosts` / `ghosts except A | B` into the ghost variables meant.
func (e *Engine) ghostNames(item string) []string {
	skip := map[string]bool{}
	if strings.HasPrefix(item, "ghosts except ") {
		for _, g := range strings.Split(strings.TrimPrefix(item, "ghosts except "), "|") {
			g = strings.TrimSpace(g)
			if _, ok := e.db.Ghosts[g]; !ok {
				unsupp("modifies ghosts except %s: no such ghost variable", g)
			}
			skip[g] = true
		}
	}
	var out []string
	for name := range e.db.Ghosts {
		if !skip[name] {
			out = append(out, name)
		}
	}
	sort.Strings(out)
	return out
}

// exceptTypes splits the type list of a `* except T1 | T2` modifies item.
func exceptTypes(item string) []string {
	var out []string
	for _, t := range strings.Split(strings.TrimPrefix(strings.TrimSpace(item), "* except "), "|") {
		if t = strings.TrimSpace(t); t != "" {
			out = append(out, t)
		}
	}
	return out
}

// havocItem havocs one item of a modifies clause.
//
//	Ghost                ghost variable
//	big                  every big.Int value
//	*                    everything
//	x.f / x.f.g          one field of the object x evaluates to (x a parameter)
//	pkg.Type.f           field f of every pkg.Type
//	elems(x)             elements of slice x ; map(x) contents of map x
// havocGhost forgets a ghost variable; an event counter (Log ghost, see isLogGhostKey) does not go down.
func (e *Engine) havocGhost(st *State, name string) {
	k := "G:" + name
	if g := e.db.Ghosts[name]; g != nil && isLogGhostKey(k) && ghostSort(g.Type) == SInt {
		before := st.heapGet(k, SInt)
		st.havocKey(k)
		st.assume(Ge(st.heapGet(k, SInt), before))
		return
	}
	st.havocKey(k)
}

func (e *Engine) havocItem(st *State, env *SpecEnv, item string) {
	item = strings.TrimSpace(item)
	switch {
	case item == "*":
		restore := e.spareForCallee(st, e.curCallee)
		restoreP := e.sparePrivate(st)
		st.havocAll()
		restore()
		restoreP()
		return
	case item == "big":
		st.havocKey("BigVal")
		return
	case strings.HasPrefix(item, "* except "):
		// everything on the Go heap except the fields of objects of one named struct type (pkg.Type)
		keepH := map[string]*Term{}
		keepV := map[string]int{}
		for _, tn := range exceptTypes(item) {
			i := strings.LastIndex(tn, ".")
			if i < 0 {
				unsupp("modifies * except pkg.Type")
			}
			T := e.lookupType(tn[:i], tn[i+1:], nil)
			if T == nil {
				unsupp("modifies * except %s: type not found", tn)
			}
			prefix := "F:" + typeKey(T) + "."
			for k, v := range st.heap {
				if strings.HasPrefix(k, prefix) {
					keepH[k] = v
				}
			}
			for k, v := range st.hv {
				if strings.HasPrefix(k, prefix) {
					keepV[k] = v
				}
			}
			// fields of that type not read yet on this path must keep their pre-call symbol as well: touch them first
			for _, l := range leaves(T) {
				k := fieldKey(T, l.path)
				if _, ok := keepH[k]; !ok {
					noteLeaf(k, l)
					keepH[k] = st.heapGet(k, arrSort(SInt, l.sort))
					if id, ok := st.hv[k]; ok {
						keepV[k] = id
					}
				}
			}
		}
		restore := e.spareForCallee(st, e.curCallee)
		restoreP := e.sparePrivate(st)
		st.havocAll()
		restore()
		restoreP()
		for k, v := range keepH {
			st.heap[k] = v
		}
		for k, v := range keepV {
			st.hv[k] = v
		}
		return
	case item == "syncmaps":
		// the contents of every sync.Map (the model does not frame them per map)
		for _, k := range []string{"SM:dom", "SM:tag", "SM:val"} {
			st.havocKey(k)
		}
		return
	case item == "lrucaches":
		// the contents of every lru.Cache
		lruDeclare()
		for _, k := range lruKeys {
			st.havocKey(k)
		}
		return
	case item == "ghosts" || strings.HasPrefix(item, "ghosts except "):
		// every declared ghost variable (model-internal G:$... ghosts are left alone), minus those excepted
		for _, name := range e.ghostNames(item) {
			e.havocGhost(st, name)
		}
		return
	}
	if g, ok := e.db.Ghosts[item]; ok {
		_ = g
		e.havocGhost(st, item)
		return
	}
	ex, err := parseExpr(item)
	if err != nil {
		unsupp("modifies item %q: %v", item, err)
	}
	switch x := ex.(type) {
	case *ECall:
		if len(x.Args) != 1 {
			unsupp("modifies item %q", item)
		}
		v := env.eval(x.Args[0])
		switch x.Fn {
		case "elems":
			sl, ok := v.T.Underlying().(*types.Slice)
			if !ok {
				unsupp("elems() of non-slice in modifies")
			}
			for _, l := range leaves(sl.Elem()) {
				k := elemKey(sl.Elem(), l.path)
				outer := st.heapGet(k, arrSort(SInt, arrSort(SInt, l.sort)))
				st.heapSet(k, Store(outer, v.V.Fs[0].T, Fresh("hv_elems", arrSort(SInt, l.sort))))
			}
		case "map":
			mt, ok := v.T.Underlying().(*types.Map)
			if !ok {
				unsupp("map() of non-map in modifies")
			}
			e.havocMap(st, mt, v.V.T)
		case "big":
			st.bigSet(v.V.T, Fresh("hv_big", SInt))
		case "obj":
			e.havocObject(st, v.V, v.T)
		case "deref":
			if v.V.P != nil && v.V.T == nil {
				pt := subType(v.V.P.Typ, v.V.P.Path)
				st.store(v.V.P, st.freshVal("hv_deref", pt))
			} else {
				e.havocObject(st, v.V, v.T)
			}
		case "dyn", "dynfresh":
			// the object behind an interface value: needs a statically known dynamic type.
			// dynfresh: whatever references the callee stores into it are nil or freshly allocated (a decoder
			// such as json.Unmarshal builds new maps / slices / objects, it never links existing ones)
			if id, ok := v.V.Fs[0].T.intVal(); ok && id.IsInt64() && typeIDTypes[id.Int64()] != nil {
				dt := typeIDTypes[id.Int64()]
				before := st.allocTerm()
				if x.Fn == "dynfresh" {
					// reserve the allocation window of the decoded references first, so that the type facts of the
					// havocked fields (allocated: below the allocation counter) admit the fresh objects
					if pt, ok := dt.Underlying().(*types.Pointer); ok && !isBigInt(pt.Elem()) && kindOf(pt.Elem()) != kOpaque {
						for _, l := range leaves(pt.Elem()) {
							if (l.typ != nil && kindOf(l.typ) == kRef) || strings.HasSuffix(l.path, "#arr") {
								st.allocN++
							}
						}
					}
				}
				switch dt.Underlying().(type) {
				case *types.Slice, *types.Map:
					// a boxed slice or map (sort.Slice(xs, less)): its elements are what the callee may write
					e.havocObject(st, e.unbox(st, v.V.Fs[1].T, dt), dt)
				default:
					e.havocObject(st, Val{T: v.V.Fs[1].T}, dt)
				}
				if x.Fn == "dynfresh" {
					if pt, ok := dt.Underlying().(*types.Pointer); ok && !isBigInt(pt.Elem()) && kindOf(pt.Elem()) != kOpaque {
						nv := st.load(derefPlace(v.V.Fs[1].T, dt))
						ls := leaves(pt.Elem())
						ts := nv.flat()
						for i, l := range ls {
							isRef := (l.typ != nil && kindOf(l.typ) == kRef) || strings.HasSuffix(l.path, "#arr")
							if isRef {
								st.assume(Or(Eq(ts[i], IntLit(0)), And(Ge(ts[i], before), Lt(ts[i], st.allocTerm()))))
							}
						}
						// one level deeper for maps of slices: the decoded slices have fresh backing arrays too
						if mt, ok := pt.Elem().Underlying().(*types.Map); ok {
							if _, isSl := mt.Elem().Underlying().(*types.Slice); isSl && kindOf(mt.Elem()) == kSlice {
								if ks, ok := mapKeySort(mt); ok {
									m := ts[0]
									st.allocN += 64
									k := BoundVar("df_k", ks)
									outer := st.heapGet(mapValKey(mt, "#arr"), arrSort(SInt, arrSort(ks, SInt)))
									a := Select(Select(outer, m), k)
									st.assume(Forall([]*Term{k}, Or(Eq(a, IntLit(0)), And(Ge(a, before), Lt(a, st.allocTerm()))), a))
									// a nil slice has no length or capacity
									lenK := Select(Select(st.heapGet(mapValKey(mt, "#len"), arrSort(SInt, arrSort(ks, SInt))), m), k)
									capK := Select(Select(st.heapGet(mapValKey(mt, "#cap"), arrSort(SInt, arrSort(ks, SInt))), m), k)
									st.assume(Forall([]*Term{k}, Implies(Eq(a, IntLit(0)), And(Eq(lenK, IntLit(0)), Eq(capK, IntLit(0)))), a))
									st.assume(Forall([]*Term{k}, And(Ge(lenK, IntLit(0)), Le(lenK, capK)), lenK))
									// and each decoded slice has a backing array of its own
									k2 := BoundVar("df_k2", ks)
									a2 := Select(Select(outer, m), k2)
									st.assume(Forall([]*Term{k, k2}, Implies(Ne(k, k2), Or(Eq(a, IntLit(0)), Ne(a, a2))), MultiPat(a, a2)))
								}
							}
						}
					}
				}
			} else {
				restore := e.spareForCallee(st, e.curCallee)
				restoreP := e.sparePrivate(st)
				st.havocAll()
				restore()
				restoreP()
			}
		default:
			unsupp("modifies item %q", item)
		}
		return
	case *ESel:
		// object field or type-level field
		if root := rootIdent(x); root != "" {
			if _, isVar := env.vars[root]; isVar {
				base := env.eval(x.X)
				pl, ft := env.fieldPlace(base, x.Name)
				nv := st.freshVal("hv_"+x.Name, ft)
				st.store(pl, nv)
				return
			}
		}
		// pkg.Type.f[.g]
		parts := strings.Split(item, ".")
		if len(parts) >= 3 {
			if T := e.lookupType(parts[0], parts[1], env.pkg); T != nil {
				path := "." + strings.Join(parts[2:], ".")
				found := false
				for _, l := range leaves(T) {
					if l.path == path || strings.HasPrefix(l.path, path+".") || strings.HasPrefix(l.path, path+"#") {
						st.havocKey(fieldKey(T, l.path))
						heapSortsDeclare(fieldKey(T, l.path), arrSort(SInt, l.sort))
						found = true
					}
				}
				if !found {
					unsupp("modifies item %q: no such field", item)
				}
				return
			}
		}
	}
	unsupp("modifies item %q not understood", item)
}

func heapSortsDeclare(k, s string) {
	if _, ok := heapSorts[k]; !ok {
		heapSorts[k] = s
	}
}

func rootIdent(x Expr) string {
	for {
		switch y := x.(type) {
		case *ESel:
			x = y.X
		case *EIndex:
			x = y.X
		case *EIdent:
			return y.Name
		default:
			return ""
		}
	}
}

func (e *Engine) havocMap(st *State, mt *types.Map, m *Term) {
	ks, ok := mapKeySort(mt)
	if !ok {
		return
	}
	dk := mapDomKey(mt)
	dom := st.heapGet(dk, arrSort(SInt, arrSort(ks, SBool)))
	st.heapSet(dk, Store(dom, m, Fresh("hv_dom", arrSort(ks, SBool))))
	ck := mapCardKey(mt)
	card := st.heapGet(ck, arrSort(SInt, SInt))
	st.heapSet(ck, Store(card, m, Fresh("hv_card", SInt)))
	for _, l := range leaves(mt.Elem()) {
		vk := mapValKey(mt, l.path)
		outer := st.heapGet(vk, arrSort(SInt, arrSort(ks, l.sort)))
		st.heapSet(vk, Store(outer, m, Fresh("hv_mv", arrSort(ks, l.sort))))
	}
}

// havocObject forgets the content of the object(s) directly reachable from v.
func (e *Engine) havocObject(st *State, v Val, t types.Type) {
	switch u := t.Underlying().(type) {
	case *types.Pointer:
		if v.T == nil {
			if v.P != nil {
				pt := subType(v.P.Typ, v.P.Path)
				st.store(v.P, st.freshVal("hv_place", pt))
			}
			return
		}
		el := u.Elem()
		if isBigInt(el) {
			st.bigSet(v.T, Fresh("hv_big", SInt))
			return
		}
		pl := derefPlace(v.T, t)
		if kindOf(el) == kOpaque {
			return
		}
		nv := st.freshVal("hv_obj", el)
		st.store(pl, nv)
	case *types.Slice:
		if kindOf(t) == kSeq {
			return // immutable abstraction
		}
		for _, l := range leaves(u.Elem()) {
			k := elemKey(u.Elem(), l.path)
			outer := st.heapGet(k, arrSort(SInt, arrSort(SInt, l.sort)))
			st.heapSet(k, Store(outer, v.Fs[0].T, Fresh("hv_elems", arrSort(SInt, l.sort))))
		}
	case *types.Map:
		e.havocMap(st, u, v.T)
	}
}

// defaultHavoc models a call to a callee without contract or body.
func (e *Engine) defaultHavoc(fr *Frame, st *State, key string, cc *ssa.CallCommon, args []Val, resType types.Type) Val {
	if !quiet(key) {
		e.unspecified[key] = true
	}
	if !noEffect(key) {
		sig := cc.Signature()
		var ptypes []types.Type
		if cc.IsInvoke() {
			ptypes = append(ptypes, cc.Value.Type())
		} else if fn, ok := cc.Value.(*ssa.Function); ok && fn.Signature.Recv() != nil {
			ptypes = append(ptypes, fn.Signature.Recv().Type())
		}
		for i := 0; i < sig.Params().Len(); i++ {
			ptypes = append(ptypes, sig.Params().At(i).Type())
		}
		if len(ptypes) > len(args) {
			ptypes = ptypes[len(ptypes)-len(args):]
		}
		for i, a := range args {
			if i >= len(ptypes) {
				break
			}
			t := ptypes[i]
			if sl, ok := t.Underlying().(*types.Slice); ok && sig.Variadic() && i == len(args)-1 {
				_ = sl
			}
			if kindOf(t) == kIface {
				// a pointer passed inside an interface (json.Unmarshal(data, &x), GetObject(key, &x)): when the dynamic
				// type is known at the call site the pointee is havocked like a plain pointer argument; with an
				// unknown dynamic type the object behind the interface is not touched in the model (assumption)
				if len(a.Fs) == 2 && a.Fs[0].T != nil {
					if id, ok := a.Fs[0].T.intVal(); ok && id.IsInt64() && typeIDTypes[id.Int64()] != nil {
						dt := typeIDTypes[id.Int64()]
						switch dt.Underlying().(type) {
						case *types.Pointer:
							e.havocObject(st, Val{T: a.Fs[1].T}, dt)
						case *types.Slice, *types.Map:
							// sort.Slice(xs, less), rand.Shuffle...: the elements behind a boxed slice / map are reachable
							e.havocObject(st, e.unbox(st, a.Fs[1].T, dt), dt)
						}
					}
				}
				continue
			}
			e.havocObject(st, a, t)
		}
	}
	if tp, ok := resType.(*types.Tuple); ok && tp.Len() == 0 {
		return Val{Fs: []Val{}}
	}
	st.allocN += countRefs(resType) + 1
	return st.freshVal("r_"+shortName(key), resType)
}

// quiet callees are not reported as unspecified (no effect, results unused or irrelevant).
func quiet(key string) bool { return noEffect(key) }

func noEffect(key string) bool {
	for _, p := range []string{"logrus.", "sync.", "prometheus.", "debug.PrintStack", "time.", "atomic."} {
		if strings.HasPrefix(key, p) {
			return true
		}
	}
	return false
}

// lookupType finds a named type by short package name and type name.
func (e *Engine) lookupType(pkgShort, name string, from *types.Package) types.Type {
	if from != nil {
		if from.Name() == pkgShort || shortPkg(from.Path()) == pkgShort {
			if o := from.Scope().Lookup(name); o != nil {
				if tn, ok := o.(*types.TypeName); ok {
					return tn.Type()
				}
			}
		}
		for _, imp := range from.Imports() {
			if imp.Name() == pkgShort || shortPkg(imp.Path()) == pkgShort {
				if o := imp.Scope().Lookup(name); o != nil {
					if tn, ok := o.(*types.TypeName); ok {
						return tn.Type()
					}
				}
			}
		}
	}
	var found types.Type
	for path, p := range e.w.AllTypes {
		if p.Name() == pkgShort || shortPkg(path) == pkgShort {
			if o := p.Scope().Lookup(name); o != nil {
				if tn, ok := o.(*types.TypeName); ok {
					if found != nil && !types.Identical(found, tn.Type()) {
						unsupp("ambiguous type %s.%s", pkgShort, name)
					}
					found = tn.Type()
				}
			}
		}
	}
	return found
}

// ---------------------------------------------------------------------
// builtins

// realRefs counts the instructions that use v, debug references aside.
func realRefs(v ssa.Value) int {
	rs := v.Referrers()
	if rs == nil {
		return -1
	}
	n := 0
	for _, r := range *rs {
		if _, dbg := r.(*ssa.DebugRef); !dbg {
			n++
		}
	}
	return n
}

// madeLocal: dst is a load of a local (non-escaping) cell into which a slice made in the same block was stored, and
// between that store and `at` the cell is only loaded for `at` itself; the made slice has no other use than the store.
func madeLocal(dst ssa.Value, at ssa.Instruction) (*ssa.Alloc, bool) {
	ld, ok := dst.(*ssa.UnOp)
	if !ok || ld.Op != token.MUL {
		return nil, false
	}
	al, ok := ld.X.(*ssa.Alloc)
	if !ok || al.Heap || ld.Block() != at.Block() {
		return nil, false
	}
	if realRefs(ld) != 1 {
		return nil, false
	}
	stage := 0 // 0: before the store of a made slice, 1: after it
	for _, in := range at.Block().Instrs {
		if in == at {
			return al, stage == 1
		}
		if stv, ok := in.(*ssa.Store); ok && stv.Addr == ssa.Value(al) {
			ms, made := stv.Val.(*ssa.MakeSlice)
			if !made {
				stage = 0
				continue
			}
			if realRefs(ms) != 1 {
				return nil, false
			}
			stage = 1
			continue
		}
		if stage == 1 && in != ssa.Instruction(ld) {
			for _, op := range in.Operands(nil) {
				if *op == ssa.Value(al) {
					return nil, false
				}
			}
		}
	}
	return nil, false
}

// freshUntil: ms was made in the block of `at` and no instruction between the two uses it.
func freshUntil(ms *ssa.MakeSlice, at ssa.Instruction) bool {
	if ms.Block() != at.Block() {
		return false
	}
	seen := false
	for _, in := range ms.Block().Instrs {
		if in == ssa.Instruction(ms) {
			seen = true
			continue
		}
		if in == at {
			return seen
		}
		if !seen {
			continue
		}
		for _, op := range in.Operands(nil) {
			if *op == ssa.Value(ms) {
				return false
			}
		}
	}
	return false
}

func (e *Engine) builtin(fr *Frame, st *State, ins ssa.Instruction, b *ssa.Builtin, cc *ssa.CallCommon, args []Val, resType types.Type) Val {
	switch b.Name() {
	case "len":
		t := cc.Args[0].Type()
		switch kindOf(t) {
		case kSeq:
			return scalar(seqLen(args[0].T))
		case kSlice:
			return args[0].Fs[2]
		case kRef:
			if mt, ok := t.Underlying().(*types.Map); ok {
				if _, sup := mapKeySort(mt); sup {
					return scalar(e.mapCard(st, mt, args[0].T))
				}
				r := Fresh("maplen", SInt)
				st.assume(Ge(r, IntLit(0)))
				return scalar(r)
			}
			r := Fresh("chanlen", SInt)
			st.assume(Ge(r, IntLit(0)))
			return scalar(r)
		}
	case "cap":
		if kindOf(cc.Args[0].Type()) == kSlice {
			return args[0].Fs[3]
		}
		r := Fresh("cap", SInt)
		st.assume(Ge(r, IntLit(0)))
		return scalar(r)
	case "copy":
		dt := cc.Args[0].Type()
		n := Fresh("copied", SInt)
		st.assume(Ge(n, IntLit(0)))
		if kindOf(dt) == kSlice {
			e.havocObject(st, args[0], dt)
			st.assume(Le(n, args[0].Fs[2].T))
		} else if al, ok := madeLocal(cc.Args[0], ins); ok {
			// the same idiom in the naive SSA form: `x := make([]byte, n)` stored into the local cell x, loaded for the
			// copy; nothing else touched the cell or the made slice in between
			id, has := fr.cellOf[al]
			if !has || kindOf(cc.Args[1].Type()) != kSeq {
				unsupp("copy into byte slice (immutable sequence abstraction)")
			}
			dst := args[0].T
			src := args[1].T
			r := Fresh("copied", SSeq)
			st.assume(Eq(seqLen(r), seqLen(dst)))
			st.assume(Ne(r, nilBytes()))
			st.assume(Implies(And(Eq(seqLen(src), seqLen(dst)), Ne(src, nilBytes())), Eq(r, src)))
			st.assume(Le(n, seqLen(dst)))
			st.cells[id] = scalar(r)
		} else if ms, ok := cc.Args[0].(*ssa.MakeSlice); ok && freshUntil(ms, ins) {
			// the copy-out idiom `x := make([]byte, len(src)); copy(x, src)`: x is a byte slice made in this block and
			// not used by anything before the copy, so no alias of it exists; from here on x denotes a sequence of the
			// made length that equals src when the lengths agree (and src is not the nil slice)
			dst := args[0].T
			src := args[1].T
			if kindOf(cc.Args[1].Type()) != kSeq {
				unsupp("copy into byte slice from %s", cc.Args[1].Type())
			}
			r := Fresh("copied", SSeq)
			st.assume(Eq(seqLen(r), seqLen(dst)))
			st.assume(Ne(r, nilBytes()))
			st.assume(Implies(And(Eq(seqLen(src), seqLen(dst)), Ne(src, nilBytes())), Eq(r, src)))
			st.assume(Le(n, seqLen(dst)))
			fr.regs[ms] = scalar(r)
		} else {
			unsupp("copy into byte slice (immutable sequence abstraction)")
		}
		return scalar(n)
	case "delete":
		mt := cc.Args[0].Type().Underlying().(*types.Map)
		if _, ok := mapKeySort(mt); ok {
			e.mapDelete(st, mt, args[0].T, mapKey(mt, args[1]))
		}
		return Val{Fs: []Val{}}
	case "print", "println":
		return Val{Fs: []Val{}}
	case "recover":
		// outside the fixed idiom: no panic in flight on normal paths
		return Val{Fs: []Val{{T: IntLit(0)}, {T: IntLit(0)}}}
	case "ssa:wrapnilchk":
		e.check(fr, st, ins, Ne(e.materialize(args[0], cc.Args[0].Type()).T, IntLit(0)), "nil receiver")
		return args[0]
	case "close":
		return Val{Fs: []Val{}}
	case "min", "max":
		if kindOf(resType) == kInt && len(args) == 2 {
			if b.Name() == "min" {
				return scalar(Ite(Le(args[0].T, args[1].T), args[0].T, args[1].T))
			}
			return scalar(Ite(Ge(args[0].T, args[1].T), args[0].T, args[1].T))
		}
	}
	unsupp("builtin %s", b.Name())
	return Val{}
}

func (e *Engine) appendOp(fr *Frame, st *State, cc *ssa.CallCommon, args []Val) (Val, []*State) {
	t := cc.Args[0].Type()
	if kindOf(t) == kSeq {
		// []byte append: sequence concatenation (argument may be a string)
		a, b := args[0].T, args[1].T
		r := App("seq_cat", SSeq, a, b)
		st.assume(Ne(r, nilBytes()))
		return scalar(r), nil
	}
	sl := t.Underlying().(*types.Slice)
	s, x := args[0], args[1]
	arr, off, ln, cp := s.Fs[0].T, s.Fs[1].T, s.Fs[2].T, s.Fs[3].T
	xarr, xoff, xlen := x.Fs[0].T, x.Fs[1].T, x.Fs[2].T
	if v, ok := xlen.intVal(); ok && v.Sign() == 0 {
		return s, nil
	}
	n := Add(ln, xlen)
	fits := Le(n, cp)
	k := int64(-1)
	if v, ok := xlen.intVal(); ok && v.IsInt64() && v.Int64() <= 8 {
		k = v.Int64()
	}
	j := BoundVar("j", SInt)
	// the appended values are read before anything is written
	type leafInfo struct {
		key   string
		inner string
		vals  []*Term // k >= 0
		xIn   *Term
	}
	var lis []leafInfo
	for _, l := range leaves(sl.Elem()) {
		key := elemKey(sl.Elem(), l.path)
		inner := arrSort(SInt, l.sort)
		outer := st.heapGet(key, arrSort(SInt, inner))
		li := leafInfo{key: key, inner: inner, xIn: Select(outer, xarr)}
		for i := int64(0); i < k; i++ {
			li.vals = append(li.vals, Select(li.xIn, Add(xoff, IntLit(i))))
		}
		lis = append(lis, li)
	}
	// case 1: in place
	st1 := st
	st2 := st.clone()
	st1.assume(fits)
	for _, li := range lis {
		outer := st1.heapGet(li.key, arrSort(SInt, li.inner))
		oldInner := Select(outer, arr)
		var inplace *Term
		if k >= 0 {
			inplace = oldInner
			for i := int64(0); i < k; i++ {
				inplace = Store(inplace, Add(Add(off, ln), IntLit(i)), li.vals[i])
			}
		} else {
			ip := Fresh("appinpl", li.inner)
			st1.assume(Forall([]*Term{j}, Implies(Or(Lt(j, Add(off, ln)), Ge(j, Add(off, n))), Eq(Select(ip, j), Select(oldInner, j))), Select(ip, j)))
			st1.assume(Forall([]*Term{j}, Implies(And(Ge(j, IntLit(0)), Lt(j, xlen)),
				Eq(Select(ip, Add(Add(off, ln), j)), Select(li.xIn, Add(xoff, j)))), Select(li.xIn, Add(xoff, j))))
			inplace = ip
		}
		st1.heapSet(li.key, Store(outer, arr, inplace))
	}
	r1 := Val{Fs: []Val{{T: arr}, {T: off}, {T: n}, {T: cp}}}
	// case 2: reallocation
	st2.assume(Not(fits))
	newref := st2.newRef()
	newcap := Fresh("newcap", SInt)
	st2.assume(Ge(newcap, n))
	st2.assume(Le(newcap, IntLit(1<<40)))
	for _, li := range lis {
		outer := st2.heapGet(li.key, arrSort(SInt, li.inner))
		oldInner := Select(outer, arr)
		newInner := Fresh("appnew", li.inner)
		st2.assume(Forall([]*Term{j}, Implies(And(Ge(j, IntLit(0)), Lt(j, ln)), Eq(Select(newInner, j), Select(oldInner, Add(off, j)))), Select(newInner, j)))
		if k >= 0 {
			for i := int64(0); i < k; i++ {
				st2.assume(Eq(Select(newInner, Add(ln, IntLit(i))), li.vals[i]))
			}
		} else {
			st2.assume(Forall([]*Term{j}, Implies(And(Ge(j, IntLit(0)), Lt(j, xlen)),
				Eq(Select(newInner, Add(ln, j)), Select(li.xIn, Add(xoff, j)))), Select(newInner, Add(ln, j))))
		}
		st2.heapSet(li.key, Store(outer, newref, newInner))
	}
	r2 := Val{Fs: []Val{{T: newref}, {T: IntLit(0)}, {T: n}, {T: newcap}}}
	// registers must agree on both continuations: bind through fresh symbols
	res := Val{Fs: []Val{{T: Fresh("app_arr", SInt)}, {T: Fresh("app_off", SInt)}, {T: n}, {T: Fresh("app_cap", SInt)}}}
	st1.assume(eqVal(res, r1))
	st2.assume(eqVal(res, r2))
	e.paths++
	return res, []*State{st1, st2}
}

// sortSearch: trusted model of sort.Search(n, f) that is exact for every predicate: the binary search
// returns an index idx in [0, n] with (idx == n or f(idx)) and (idx == 0 or !f(idx-1)).
func (e *Engine) sortSearch(fr *Frame, st *State, args []Val) (Val, []*State, bool) {
	n := args[0].T
	cfn := args[1].Clo.Fn.(*ssa.Function)
	idx := Fresh("search_idx", SInt)
	st.assume(Ge(idx, IntLit(0)))
	st.assume(Le(idx, n))
	call := func(s *State, at *Term) (*Term, *State, bool) {
		v, sts := e.inline(fr, s, cfn, args[1].Clo.Bindings, nil, []Val{scalar(at)}, types.Typ[types.Bool])
		if sts == nil {
			return v.T, s, true
		}
		if len(sts) != 1 {
			return nil, nil, false
		}
		return v.T, sts[0], true
	}
	// f(idx) when idx < n
	sA := st.clone()
	sA.assume(Lt(idx, n))
	r1, sA2, ok := call(sA, idx)
	if !ok {
		return Val{}, nil, false
	}
	_ = sA2
	// the predicate is evaluated on a copy: only its value matters (sort.Search predicates are pure here)
	st.assume(Implies(Lt(idx, n), Implies(And(sA2.pc[len(sA.pc):]...), r1)))
	sB := st.clone()
	sB.assume(Gt(idx, IntLit(0)))
	r2, sB2, ok := call(sB, Sub(idx, IntLit(1)))
	if !ok {
		return Val{}, nil, false
	}
	st.assume(Implies(Gt(idx, IntLit(0)), Implies(And(sB2.pc[len(sB.pc):]...), Not(r2))))
	e.note("sort.Search modelled by its exact characterisation (idx==n or f(idx)) and (idx==0 or !f(idx-1)); the predicate is assumed pure")
	return scalar(idx), nil, true
}

// retryModel: retry.Retry(action, strategies...) runs action until it returns nil or a strategy says stop and
// returns the error of the last run. Modelled as: everything the action may write is forgotten (the earlier
// runs), then the action runs once more and its error is the result. Assumes the strategies allow the first
// attempt (true for strategy.Limit(n>0) and strategy.Wait, the ones used in /repo).
func (e *Engine) retryModel(fr *Frame, st *State, args []Val, resType types.Type) (Val, []*State) {
	clo := args[0].Clo
	cfn := clo.Fn.(*ssa.Function)
	ws := newWriteSet()
	sub := &Frame{fn: cfn, cellOf: map[*ssa.Alloc]int{}, free: clo.Bindings}
	e.blocksWrites(sub, cfn.Blocks, ws, fr.depth+1, map[*ssa.Function]bool{cfn: true})
	if ws.all {
		restore := e.spareForWrites(st, ws)
		st.havocAll()
		restore()
	}
	for k := range ws.keys {
		st.havocKey(k)
	}
	for c := range ws.cells {
		if old, ok := st.cells[c]; ok {
			st.cells[c] = e.havocVal(st, old, e.cellType(fr, c))
		}
	}
	attempt := st.freshVal("attempt", cfn.Signature.Params().At(0).Type())
	e.note("retry.Retry modelled as: earlier attempts forgotten, one last attempt whose error is returned (assumes the strategies allow a first attempt)")
	return e.inline(fr, st, cfn, clo.Bindings, nil, []Val{attempt}, resType)
}
