package main

import (
	"fmt"
	"go/types"
	"math/big"
	"sort"
	"strings"
)

// State is one symbolic path state.
type State struct {
	pc      []*Term
	cells   map[int]Val
	heap    map[string]*Term
	epoch   int // bumped by havoc-all; unknown keys resolve to a per-epoch symbol
	allocN  int
	allocB  *Term // allocation base (alloc0, or a fresh symbol after a loop havoc)
	trace   []string
	seen    map[int]bool // terms that already have their type facts in pc
	hv      map[string]int
	pcSet   map[int]bool
	fsms    map[int]*fsmModel  // looplab/fsm objects by ref term id
	mapClos map[int][]cloEntry // closures stored into Go maps, by map ref term id
	dead    bool
	// loopEntry: the state in which each loop was entered on this path (before its havoc); read by entry(e) in invariants
	loopEntry map[*Loop]*State
}

func (st *State) clone() *State {
	n := &State{epoch: st.epoch, allocN: st.allocN, allocB: st.allocB}
	n.pc = append([]*Term{}, st.pc...)
	n.cells = make(map[int]Val, len(st.cells))
	for k, v := range st.cells {
		n.cells[k] = v
	}
	n.heap = make(map[string]*Term, len(st.heap))
	for k, v := range st.heap {
		n.heap[k] = v
	}
	n.seen = make(map[int]bool, len(st.seen))
	for k, v := range st.seen {
		n.seen[k] = v
	}
	n.hv = make(map[string]int, len(st.hv))
	for k, v := range st.hv {
		n.hv[k] = v
	}
	if st.loopEntry != nil {
		n.loopEntry = make(map[*Loop]*State, len(st.loopEntry))
		for k, v := range st.loopEntry {
			n.loopEntry[k] = v
		}
	}
	if st.fsms != nil {
		n.fsms = make(map[int]*fsmModel, len(st.fsms))
		for k, v := range st.fsms {
			n.fsms[k] = v
		}
	}
	if st.mapClos != nil {
		n.mapClos = make(map[int][]cloEntry, len(st.mapClos))
		for k, v := range st.mapClos {
			n.mapClos[k] = append([]cloEntry{}, v...)
		}
	}
	n.trace = append([]string{}, st.trace...)
	return n
}

func (st *State) assume(t *Term) {
	if t == nil || t.isTrue() {
		return
	}
	if t.bound {
		return // a fact about a term under a binder cannot be asserted at top level
	}
	if t.isFalse() {
		st.dead = true
	}
	if t.op == "and" {
		for _, a := range t.args {
			st.assume(a)
		}
		return
	}
	if st.pcSet == nil {
		st.pcSet = map[int]bool{}
		for _, p := range st.pc {
			st.pcSet[p.id] = true
		}
	}
	if st.pcSet[t.id] {
		return
	}
	st.pcSet[t.id] = true
	st.pc = append(st.pc, t)
	if st.pcSet[Not(t).id] {
		st.dead = true
		return
	}
	// light forward chaining (keeps guard patterns from forking needlessly)
	switch {
	case t.op == "=" && t.args[0].sort == SBool:
		a, b := t.args[0], t.args[1]
		switch {
		case st.known(a) == 1:
			st.assume(b)
		case st.known(a) == -1:
			st.assume(Not(b))
		case st.known(b) == 1:
			st.assume(a)
		case st.known(b) == -1:
			st.assume(Not(a))
		}
	case t.op == "=>":
		a, b := t.args[0], t.args[1]
		if st.known(a) == 1 {
			st.assume(b)
		} else if st.known(b) == -1 {
			st.assume(Not(a))
		}
	case t.op == "not" && t.args[0].op == "and":
		// not(and(x, y)) with x known -> not y (binary case)
		as := t.args[0].args
		if len(as) == 2 {
			if st.known(as[0]) == 1 {
				st.assume(Not(as[1]))
			} else if st.known(as[1]) == 1 {
				st.assume(Not(as[0]))
			}
		}
	}
}

// known: 1 if t is syntactically among the assumptions, -1 if its negation is, 0 otherwise.
func (st *State) known(t *Term) int {
	if t.isTrue() {
		return 1
	}
	if t.isFalse() {
		return -1
	}
	if st.pcSet == nil {
		st.pcSet = map[int]bool{}
		for _, p := range st.pc {
			st.pcSet[p.id] = true
		}
	}
	if st.pcSet[t.id] {
		return 1
	}
	if st.pcSet[Not(t).id] {
		return -1
	}
	return 0
}

var alloc0 = func() *Term { return Sym("alloc0", SInt) }

// allocTerm is the next fresh reference in this state.
func (st *State) allocTerm() *Term {
	b := st.allocB
	if b == nil {
		b = alloc0()
	}
	return Add(b, IntLit(int64(st.allocN)))
}

// rebaseAlloc forgets how many objects exist (loop havoc): the next fresh reference is an
// unknown value not below the current one, so objects allocated by earlier iterations
// cannot collide with this iteration's allocations.
func (st *State) rebaseAlloc() {
	old := st.allocTerm()
	nb := Fresh("allocL", SInt)
	st.allocB, st.allocN = nb, 0
	st.assume(Ge(nb, old))
}

func (st *State) newRef() *Term {
	r := st.allocTerm()
	st.allocN++
	return r
}

// heapSorts is the global registry of heap component sorts.
var heapSorts = map[string]string{}

func (st *State) heapGet(key, sort string) *Term {
	if s, ok := heapSorts[key]; ok && s != sort {
		panic(fmt.Sprintf("heap key %s used at sorts %s and %s", key, s, sort))
	}
	heapSorts[key] = sort
	if t, ok := st.heap[key]; ok {
		return t
	}
	name := "H0|" + key
	if id, ok := st.hv[key]; ok {
		name = fmt.Sprintf("Hv%d|%s", id, key)
	} else if st.epoch > 0 && !strings.HasPrefix(key, "G:") {
		name = fmt.Sprintf("H%d|%s", st.epoch, key)
	}
	t := Sym(name, sort)
	st.heap[key] = t
	if heapIsRef[key] || strings.HasSuffix(key, "#arr") {
		// heap well-formedness: every reference stored in the heap is allocated
		bound := st.allocTerm()
		if strings.HasPrefix(name, "H0|") {
			bound = alloc0()
		}
		r := BoundVar("wf_r", SInt)
		if strings.HasPrefix(sort, "(Array Int (Array ") {
			ksort := SInt
			if strings.HasPrefix(sort, "(Array Int (Array "+SSeq+" ") {
				ksort = SSeq
			}
			i := BoundVar("wf_i", ksort)
			x := Select(Select(t, r), i)
			st.assume(Forall([]*Term{r, i}, Implies(And(Ge(r, IntLit(0)), Lt(r, bound)), And(Ge(x, IntLit(0)), Lt(x, bound))), x))
		} else if sort == arrSort(SInt, SInt) {
			x := Select(t, r)
			st.assume(Forall([]*Term{r}, Implies(And(Ge(r, IntLit(0)), Lt(r, bound)), And(Ge(x, IntLit(0)), Lt(x, bound))), x))
		}
	}
	return t
}

// heapIsRef marks heap components whose values are references.
var heapIsRef = map[string]bool{}

func noteLeaf(key string, l leaf) {
	if l.typ != nil && kindOf(l.typ) == kRef {
		heapIsRef[key] = true
	}
	if strings.HasSuffix(l.path, "#arr") {
		heapIsRef[key] = true
	}
}

func (st *State) heapSet(key string, t *Term) {
	if s, ok := heapSorts[key]; ok && s != t.sort {
		panic(fmt.Sprintf("heap key %s set at sort %s, declared %s", key, t.sort, s))
	}
	heapSorts[key] = t.sort
	st.heap[key] = t
}

var epochCounter = 0
var hvCounter = 0

// havocAll forgets every non-ghost heap component.
func (st *State) havocAll() {
	epochCounter++
	st.epoch = epochCounter
	for k := range st.heap {
		if !strings.HasPrefix(k, "G:") {
			delete(st.heap, k)
		}
	}
	for k := range st.hv {
		if !strings.HasPrefix(k, "G:") {
			delete(st.hv, k)
		}
	}
}

// havocKey replaces a whole heap component by a fresh array.
func (st *State) havocKey(key string) {
	delete(st.heap, key)
	hvCounter++
	st.hv[key] = hvCounter
}

// ---------------------------------------------------------------------
// heap keys

func fieldKey(structT types.Type, path string) string { return "F:" + typeKey(structT) + path }
func elemKey(elemT types.Type, path string) string    { return "E:" + typeKey(elemT) + path }
func boxKey(t types.Type, path string) string         { return "B:" + typeKey(t) + path }
func mapDomKey(mt types.Type) string                  { return "MD:" + typeKey(mt) }
func mapValKey(mt types.Type, path string) string     { return "MV:" + typeKey(mt) + path }
func mapCardKey(mt types.Type) string                 { return "MC:" + typeKey(mt) }

// typeFacts adds the range / well-formedness facts of a freshly introduced
// value of Go type t (parameters, loads, call results, havoc).
func (st *State) typeFacts(v Val, t types.Type) {
	switch kindOf(t) {
	case kInt:
		st.intFact(v.T, t)
	case kRef:
		st.refFact(v.T)
	case kSeq:
		// nothing: seq_len >= 0 is an axiom
	case kSlice:
		arr, off, ln, cp := v.Fs[0].T, v.Fs[1].T, v.Fs[2].T, v.Fs[3].T
		if st.mark(ln) {
			st.refFact(arr)
			st.assume(Ge(off, IntLit(0)))
			st.assume(Ge(ln, IntLit(0)))
			st.assume(Le(ln, cp))
			st.assume(Le(cp, IntLit(1<<40)))
			st.assume(Le(off, IntLit(1<<40)))
			// nil slice has len 0 / cap 0
			st.assume(Implies(Eq(arr, IntLit(0)), And(Eq(ln, IntLit(0)), Eq(cp, IntLit(0)))))
		}
	case kIface:
		tag, val := v.Fs[0].T, v.Fs[1].T
		if st.mark(tag) {
			st.assume(Ge(tag, IntLit(0)))
			st.assume(Implies(Eq(tag, IntLit(0)), Eq(val, IntLit(0))))
		}
	case kStruct:
		s := t.Underlying().(*types.Struct)
		for i := 0; i < s.NumFields(); i++ {
			st.typeFacts(v.Fs[i], s.Field(i).Type())
		}
	case kTuple:
		tp := t.(*types.Tuple)
		for i := 0; i < tp.Len(); i++ {
			st.typeFacts(v.Fs[i], tp.At(i).Type())
		}
	}
}

func (st *State) mark(t *Term) bool {
	if t == nil {
		return false
	}
	if _, lit := t.intVal(); lit {
		return false
	}
	if t.bound {
		return false // under a quantifier: facts cannot be stated outside the binder
	}
	if st.seen[t.id] {
		return false
	}
	st.seen[t.id] = true
	return true
}

func (st *State) intFact(t *Term, typ types.Type) {
	if !st.mark(t) {
		return
	}
	lo, hi := intRange(typ)
	st.assume(Ge(t, BigLit(lo)))
	st.assume(Le(t, BigLit(hi)))
}

func (st *State) refFact(t *Term) {
	if !st.mark(t) {
		return
	}
	st.assume(Ge(t, IntLit(0)))
	st.assume(Lt(t, st.allocTerm()))
}

// freshVal makes a fresh symbolic value of type t with its type facts.
func (st *State) freshVal(hint string, t types.Type) Val {
	ls := leaves(t)
	ts := make([]*Term, len(ls))
	for i, l := range ls {
		ts[i] = Fresh(hint+l.path, l.sort)
	}
	v := build(t, ts)
	st.typeFacts(v, t)
	return v
}

// ---------------------------------------------------------------------
// loads and stores through places

func (st *State) load(p *Place) Val {
	switch p.Kind {
	case PLocal:
		return st.cells[p.Cell].sub(p.Path)
	case PField:
		t := subType(p.Typ, p.Path)
		base := pathString(p.Typ, p.Path)
		return st.loadLeaves(t, func(l leaf) *Term {
			noteLeaf(fieldKey(p.Typ, base+l.path), l)
			arr := st.heapGet(fieldKey(p.Typ, base+l.path), arrSort(SInt, l.sort))
			return Select(arr, p.Ref)
		})
	case PBox:
		t := subType(p.Typ, p.Path)
		base := ""
		if len(p.Path) > 0 {
			base = pathString(p.Typ, p.Path)
		}
		return st.loadLeaves(t, func(l leaf) *Term {
			noteLeaf(boxKey(p.Typ, base+l.path), l)
			arr := st.heapGet(boxKey(p.Typ, base+l.path), arrSort(SInt, l.sort))
			return Select(arr, p.Ref)
		})
	case PElem:
		t := subType(p.Typ, p.Path)
		base := ""
		if len(p.Path) > 0 {
			base = pathString(p.Typ, p.Path)
		}
		return st.loadLeaves(t, func(l leaf) *Term {
			noteLeaf(elemKey(p.Typ, base+l.path), l)
			arr := st.heapGet(elemKey(p.Typ, base+l.path), arrSort(SInt, arrSort(SInt, l.sort)))
			return Select(Select(arr, p.Ref), p.Idx)
		})
	case PGlobal:
		t := subType(p.Typ, p.Path)
		base := ""
		if len(p.Path) > 0 {
			base = pathString(p.Typ, p.Path)
		}
		return st.loadLeaves(t, func(l leaf) *Term {
			return st.heapGet("GV:"+p.Name+base+l.path, l.sort)
		})
	}
	panic("load: bad place")
}

func (st *State) loadLeaves(t types.Type, rd func(leaf) *Term) Val {
	ls := leaves(t)
	ts := make([]*Term, len(ls))
	for i, l := range ls {
		ts[i] = rd(l)
	}
	v := build(t, ts)
	st.typeFacts(v, t)
	return v
}

func (st *State) store(p *Place, v Val) {
	switch p.Kind {
	case PLocal:
		st.cells[p.Cell] = st.cells[p.Cell].withSub(p.Path, v)
	case PField, PBox, PElem, PGlobal:
		t := subType(p.Typ, p.Path)
		base := ""
		if len(p.Path) > 0 {
			base = pathString(p.Typ, p.Path)
		}
		ls := leaves(t)
		ts := v.flat()
		if len(ls) != len(ts) {
			panic(fmt.Sprintf("store: %d leaves vs %d terms for %s", len(ls), len(ts), t))
		}
		for i, l := range ls {
			switch p.Kind {
			case PField:
				k := fieldKey(p.Typ, base+l.path)
				noteLeaf(k, l)
				st.heapSet(k, Store(st.heapGet(k, arrSort(SInt, l.sort)), p.Ref, ts[i]))
			case PBox:
				k := boxKey(p.Typ, base+l.path)
				noteLeaf(k, l)
				st.heapSet(k, Store(st.heapGet(k, arrSort(SInt, l.sort)), p.Ref, ts[i]))
			case PElem:
				k := elemKey(p.Typ, base+l.path)
				noteLeaf(k, l)
				outer := st.heapGet(k, arrSort(SInt, arrSort(SInt, l.sort)))
				st.heapSet(k, Store(outer, p.Ref, Store(Select(outer, p.Ref), p.Idx, ts[i])))
			case PGlobal:
				st.heapSet("GV:"+p.Name+base+l.path, ts[i])
			}
		}
	}
}

// derefPlace turns a pointer value of static type *T into a place.
func derefPlace(ref *Term, ptrT types.Type) *Place {
	pt, ok := ptrT.Underlying().(*types.Pointer)
	if !ok {
		panic("derefPlace: not a pointer: " + ptrT.String())
	}
	el := pt.Elem()
	if isBigInt(el) {
		return &Place{Kind: PBox, Ref: ref, Typ: el}
	}
	if kindOf(el) == kStruct {
		return &Place{Kind: PField, Ref: ref, Typ: el}
	}
	return &Place{Kind: PBox, Ref: ref, Typ: el}
}

func isBigInt(t types.Type) bool {
	n, ok := t.(*types.Named)
	return ok && n.Obj().Pkg() != nil && n.Obj().Pkg().Path() == "math/big" && n.Obj().Name() == "Int"
}

// BigVal accessors (math/big.Int objects are exact integers)
func (st *State) bigGet(ref *Term) *Term {
	return Select(st.heapGet("BigVal", arrSort(SInt, SInt)), ref)
}
func (st *State) bigSet(ref, v *Term) {
	st.heapSet("BigVal", Store(st.heapGet("BigVal", arrSort(SInt, SInt)), ref, v))
}

// allocObject allocates a fresh zeroed heap object of type t and returns its ref.
func (st *State) allocObject(t types.Type) *Term {
	r := st.newRef()
	if isBigInt(t) {
		st.bigSet(r, IntLit(0))
		return r
	}
	if at, ok := t.Underlying().(*types.Array); ok && !isByte(at.Elem()) {
		for _, l := range leaves(at.Elem()) {
			k := elemKey(at.Elem(), l.path)
			outer := st.heapGet(k, arrSort(SInt, arrSort(SInt, l.sort)))
			st.heapSet(k, Store(outer, r, ConstArr(arrSort(SInt, l.sort), zeroLeaf(l))))
		}
		return r
	}
	var p *Place
	if kindOf(t) == kStruct {
		p = &Place{Kind: PField, Ref: r, Typ: t}
	} else {
		p = &Place{Kind: PBox, Ref: r, Typ: t}
	}
	st.store(p, zeroVal(t))
	return r
}

// wrap reduces a mathematical result into the range of integer type t (two's complement).
func wrapInt(v *Term, t types.Type) *Term {
	lo, hi := intRange(t)
	if c, ok := v.intVal(); ok {
		m := new(big.Int).Add(new(big.Int).Sub(hi, lo), big.NewInt(1))
		r := new(big.Int).Sub(c, lo)
		r.Mod(r, m)
		r.Add(r, lo)
		return BigLit(r)
	}
	m := new(big.Int).Add(new(big.Int).Sub(hi, lo), big.NewInt(1))
	// single wrap in either direction is enough for + and - of in-range operands
	return Ite(Gt(v, BigLit(hi)), Sub(v, BigLit(m)), Ite(Lt(v, BigLit(lo)), Add(v, BigLit(m)), v))
}

// wrapFull handles arbitrary magnitude (multiplication): v mod 2^n re-centred.
func wrapFull(v *Term, t types.Type) *Term {
	lo, hi := intRange(t)
	m := new(big.Int).Add(new(big.Int).Sub(hi, lo), big.NewInt(1))
	if c, ok := v.intVal(); ok {
		r := new(big.Int).Sub(c, lo)
		r.Mod(r, m)
		r.Add(r, lo)
		return BigLit(r)
	}
	inRange := And(Ge(v, BigLit(lo)), Le(v, BigLit(hi)))
	w := Add(EMod(Sub(v, BigLit(lo)), BigLit(m)), BigLit(lo))
	return Ite(inRange, v, w)
}

func sortedKeys(m map[string]*Term) []string {
	var ks []string
	for k := range m {
		ks = append(ks, k)
	}
	sort.Strings(ks)
	return ks
}
