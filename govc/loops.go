package main

import (
	"fmt"
	"go/types"
	"sort"
	"strings"

	"golang.org/x/tools/go/ssa"
)

// findRangeIndexCell returns the cell of the hidden range index of a slice range loop.
func findRangeIndexCell(fr *Frame, l *Loop) (int, bool) {
	for _, ins := range l.Header.Instrs {
		if s, ok := ins.(*ssa.Store); ok {
			if a, ok := s.Addr.(*ssa.Alloc); ok && a.Comment == "rangeindex" {
				id, ok := fr.cellOf[a]
				return id, ok
			}
		}
	}
	return 0, false
}

// writeSet is what a region of code may modify.
type writeSet struct {
	all      bool
	cells    map[int]bool
	keys     map[string]bool // whole heap components
	iters    map[ssa.Value]bool
	why      []string
	callees  map[*ssa.Function]bool // static callees seen (write confinement)
	allPlain bool                   // all was set by something else than a `* except T` contract
	excepts  [][]string             // the type lists of the `* except` contracts that set all
}

func newWriteSet() *writeSet {
	return &writeSet{cells: map[int]bool{}, keys: map[string]bool{}, iters: map[ssa.Value]bool{}, callees: map[*ssa.Function]bool{}}
}

// rootOfAddr classifies the target of a store.
func (e *Engine) addrWrites(fr *Frame, addr ssa.Value, ws *writeSet) {
	path := ""
	v := addr
	var structT types.Type
	for {
		switch x := v.(type) {
		case *ssa.FieldAddr:
			st := x.X.Type().Underlying().(*types.Pointer).Elem()
			f := st.Underlying().(*types.Struct).Field(x.Field)
			path = "." + f.Name() + path
			structT = st
			v = x.X
			if _, isFA := v.(*ssa.FieldAddr); isFA {
				continue
			}
			if a, ok := v.(*ssa.Alloc); ok && e.isCellAlloc(a) {
				if id, ok := fr.cellOf[a]; ok {
					ws.cells[id] = true
				}
				return
			}
			if fv, ok := v.(*ssa.FreeVar); ok {
				e.freeVarWrites(fr, fv, ws)
				return
			}
			// pointer value: heap field components under path
			for _, l := range leaves(structT) {
				if l.path == path || strings.HasPrefix(l.path, path+".") || strings.HasPrefix(l.path, path+"#") {
					ws.keys[regKey(fieldKey(structT, l.path), l, 1)] = true
				}
			}
			return
		case *ssa.IndexAddr:
			switch xt := x.X.Type().Underlying().(type) {
			case *types.Slice:
				for _, l := range leaves(xt.Elem()) {
					ws.keys[regKey(elemKey(xt.Elem(), l.path), l, 2)] = true
				}
			case *types.Pointer:
				if at, ok := xt.Elem().Underlying().(*types.Array); ok {
					for _, l := range leaves(at.Elem()) {
						ws.keys[regKey(elemKey(at.Elem(), l.path), l, 2)] = true
					}
				}
			}
			return
		case *ssa.Alloc:
			if e.isCellAlloc(x) {
				if id, ok := fr.cellOf[x]; ok {
					ws.cells[id] = true
				}
				// allocated inside the region: fresh per iteration, nothing to havoc
				return
			}
			e.typeWrites(x.Type(), ws)
			return
		case *ssa.FreeVar:
			e.freeVarWrites(fr, x, ws)
			return
		case *ssa.Global:
			gt := x.Type().(*types.Pointer).Elem()
			for _, l := range leaves(gt) {
				ws.keys["GV:"+x.Pkg.Pkg.Path()+"."+x.Name()+l.path] = true
			}
			return
		default:
			// some pointer value
			e.typeWrites(v.Type(), ws)
			return
		}
	}
}

func (e *Engine) freeVarWrites(fr *Frame, fv *ssa.FreeVar, ws *writeSet) {
	for i, f := range fr.fn.FreeVars {
		if f == fv && i < len(fr.free) {
			b := fr.free[i]
			if b.P != nil && b.P.Kind == PLocal {
				ws.cells[b.P.Cell] = true
				return
			}
		}
	}
	e.typeWrites(fv.Type(), ws)
}

// typeWrites: a store through a pointer of type pt.
func (e *Engine) typeWrites(pt types.Type, ws *writeSet) {
	p, ok := pt.Underlying().(*types.Pointer)
	if !ok {
		return
	}
	el := p.Elem()
	if isBigInt(el) {
		ws.keys["BigVal"] = true
		return
	}
	if kindOf(el) == kStruct {
		for _, l := range leaves(el) {
			ws.keys[regKey(fieldKey(el, l.path), l, 1)] = true
		}
		return
	}
	if at, ok := el.Underlying().(*types.Array); ok && kindOf(el) != kSeq {
		for _, l := range leaves(at.Elem()) {
			ws.keys[regKey(elemKey(at.Elem(), l.path), l, 2)] = true
		}
		return
	}
	for _, l := range leaves(el) {
		ws.keys[regKey(boxKey(el, l.path), l, 1)] = true
	}
}

// objectWrites: what havocObject(v of type t) may touch.
func (e *Engine) objectWrites(t types.Type, ws *writeSet) {
	switch u := t.Underlying().(type) {
	case *types.Pointer:
		e.typeWrites(t, ws)
	case *types.Slice:
		if kindOf(t) == kSeq {
			return
		}
		for _, l := range leaves(u.Elem()) {
			ws.keys[regKey(elemKey(u.Elem(), l.path), l, 2)] = true
		}
	case *types.Map:
		ws.keys[mapDomKey(u)] = true
		ws.keys[mapCardKey(u)] = true
		for _, l := range leaves(u.Elem()) {
			ws.keys[mapValKey(u, l.path)] = true
		}
		// the three components get their sorts here: a loop that is the first to touch the map type must still be
		// able to state (and keep) the function's frame for each of them, the cardinality included
		if ks, ok := mapKeySort(u); ok {
			reg := func(k, srt string) {
				if _, known := heapSorts[k]; !known {
					heapSorts[k] = srt
				}
			}
			reg(mapDomKey(u), arrSort(SInt, arrSort(ks, SBool)))
			reg(mapCardKey(u), arrSort(SInt, SInt))
		}
	}
}

func (e *Engine) blocksWrites(fr *Frame, blocks []*ssa.BasicBlock, ws *writeSet, depth int, seen map[*ssa.Function]bool) {
	for _, b := range blocks {
		for _, ins := range b.Instrs {
			switch x := ins.(type) {
			case *ssa.Store:
				e.addrWrites(fr, x.Addr, ws)
			case *ssa.MapUpdate:
				e.objectWrites(x.Map.Type(), ws)
			case *ssa.Next:
				ws.iters[x.Iter] = true
			case *ssa.Range:
			case *ssa.Call:
				e.callWrites(fr, &x.Call, ws, depth, seen)
			case *ssa.Defer:
				e.callWrites(fr, &x.Call, ws, depth, seen)
			case *ssa.Go:
				e.callWrites(fr, &x.Call, ws, depth, seen)
			case *ssa.RunDefers:
				// defers registered in this function: conservatively all of them
				for _, bb := range fr.fn.Blocks {
					for _, i2 := range bb.Instrs {
						if d, ok := i2.(*ssa.Defer); ok {
							e.callWrites(fr, &d.Call, ws, depth, seen)
						}
					}
				}
			}
		}
	}
}

func (e *Engine) callWrites(fr *Frame, cc *ssa.CallCommon, ws *writeSet, depth int, seen map[*ssa.Function]bool) {
	if cc.IsInvoke() {
		key := e.invokeKey(cc)
		if c := e.db.Contracts[key]; c != nil {
			e.contractWrites(c, ws, cc.Signature(), true, cc.Value.Type(), cc)
			return
		}
		if noEffect(key) {
			return
		}
		for _, a := range cc.Args {
			if kindOf(a.Type()) != kIface {
				e.objectWrites(a.Type(), ws)
			}
		}
		return
	}
	switch fv := cc.Value.(type) {
	case *ssa.Builtin:
		switch fv.Name() {
		case "append", "copy":
			e.objectWrites(cc.Args[0].Type(), ws)
		case "delete":
			e.objectWrites(cc.Args[0].Type(), ws)
		}
		return
	case *ssa.Function:
		ws.callees[fv] = true
		e.funcWrites(fr, fv, cc, ws, depth, seen)
		return
	case *ssa.MakeClosure:
		ws.callees[fv.Fn.(*ssa.Function)] = true
		e.funcWrites(fr, fv.Fn.(*ssa.Function), cc, ws, depth, seen)
		return
	}
	// a value of a named function type with a contract under the type's name
	if n, ok := cc.Value.Type().(*types.Named); ok && n.Obj().Pkg() != nil {
		if c := e.db.Contracts[n.Obj().Pkg().Name()+"."+n.Obj().Name()]; c != nil {
			e.contractWrites(c, ws, cc.Signature(), false, nil, cc)
			return
		}
	}
	// function value: unknown closure -> if a MakeClosure in this function produced it we cannot tell; be conservative
	ws.all, ws.allPlain = true, true
	ws.why = append(ws.why, "call through function value "+cc.Value.Name())
}

// pathType resolves the static type of "p.f.g" where p is a parameter and f, g are struct fields (through pointers).
func pathType(ptype map[string]types.Type, path string) (types.Type, bool) {
	parts := strings.Split(path, ".")
	t, ok := ptype[parts[0]]
	if !ok || len(parts) < 2 {
		return nil, false
	}
	for _, f := range parts[1:] {
		if pt, isPtr := t.Underlying().(*types.Pointer); isPtr {
			t = pt.Elem()
		}
		stt, isStruct := t.Underlying().(*types.Struct)
		if !isStruct {
			return nil, false
		}
		found := false
		for i := 0; i < stt.NumFields(); i++ {
			if stt.Field(i).Name() == f {
				t, found = stt.Field(i).Type(), true
				break
			}
		}
		if !found {
			return nil, false
		}
	}
	return t, true
}

func (e *Engine) contractWrites(c *Contract, ws *writeSet, sig *types.Signature, invoke bool, recvT types.Type, cc *ssa.CallCommon) {
	// parameter name -> static type, for object-level items
	ptype := map[string]types.Type{}
	pdyn := map[string]types.Type{} // parameter name -> type boxed into the interface argument at this call site
	if sig != nil {
		names := e.paramNames(c, sig, invoke)
		var pts []types.Type
		if invoke {
			pts = append(pts, recvT)
		} else if sig.Recv() != nil {
			pts = append(pts, sig.Recv().Type())
		}
		for i := 0; i < sig.Params().Len(); i++ {
			pts = append(pts, sig.Params().At(i).Type())
		}
		for i, n := range names {
			if i < len(pts) {
				ptype[n] = pts[i]
			}
			if cc != nil {
				j := i
				if invoke {
					j = i - 1
				}
				if j >= 0 && j < len(cc.Args) && len(names) == len(cc.Args)+btoi(invoke) {
					if mi, ok := cc.Args[j].(*ssa.MakeInterface); ok {
						pdyn[n] = mi.X.Type()
					}
				}
			}
		}
	}
	for _, m := range c.Modifies {
		m = strings.TrimSpace(m)
		if i := strings.Index(m, "("); i > 0 && strings.HasSuffix(m, ")") {
			fnName, arg := m[:i], strings.TrimSpace(m[i+1:len(m)-1])
			t, ok := ptype[arg]
			if !ok {
				// a field path from a parameter (map(nc.commitNonces)): its static type is found by walking the fields
				t, ok = pathType(ptype, arg)
			}
			if ok {
				switch fnName {
				case "obj", "elems", "map", "deref":
					e.objectWrites(t, ws)
					continue
				case "dyn", "dynfresh":
					if dt, ok := pdyn[arg]; ok {
						// the object boxed at this call site: json.Unmarshal(data, &x) writes x
						e.objectWrites(dt, ws)
						continue
					}
					ws.all, ws.allPlain = true, true
					ws.why = append(ws.why, "dyn() item of "+c.Key)
					continue
				case "big":
					ws.keys["BigVal"] = true
					continue
				}
			}
		}
		if parts := strings.Split(m, "."); len(parts) >= 2 {
			if t, ok := ptype[parts[0]]; ok {
				// x.f[.g]: field components of x's struct type
				if pt, isPtr := t.Underlying().(*types.Pointer); isPtr && kindOf(pt.Elem()) == kStruct {
					path := "." + strings.Join(parts[1:], ".")
					hit := false
					for _, l := range leaves(pt.Elem()) {
						if l.path == path || strings.HasPrefix(l.path, path+".") || strings.HasPrefix(l.path, path+"#") {
							ws.keys[regKey(fieldKey(pt.Elem(), l.path), l, 1)] = true
							hit = true
						}
					}
					if hit {
						continue
					}
				}
			}
		}
		switch {
		case m == "*":
			ws.all, ws.allPlain = true, true
			ws.why = append(ws.why, "modifies * of "+c.Key)
		case m == "big":
			ws.keys["BigVal"] = true
		case strings.HasPrefix(m, "* except "):
			ws.all = true
			ws.excepts = append(ws.excepts, exceptTypes(m))
			ws.why = append(ws.why, "modifies "+m+" of "+c.Key)
		case m == "syncmaps":
			domS, valS := smSorts()
			for k, srt := range map[string]string{"SM:dom": domS, "SM:tag": valS, "SM:val": valS} {
				if _, ok := heapSorts[k]; !ok {
					heapSorts[k] = srt
				}
				ws.keys[k] = true
			}
		case m == "lrucaches":
			lruDeclare()
			for _, k := range lruKeys {
				ws.keys[k] = true
			}
		case m == "ghosts" || strings.HasPrefix(m, "ghosts except "):
			for _, name := range e.ghostNames(m) {
				ws.keys["G:"+name] = true
			}
		default:
			if _, ok := e.db.Ghosts[m]; ok {
				ws.keys["G:"+m] = true
				continue
			}
			if strings.HasPrefix(m, "big(") {
				ws.keys["BigVal"] = true
				continue
			}
			// object-level or type-level field: resolve by suffix match on known heap keys is fragile;
			// conservatively havoc every component whose key ends with the field path
			parts := strings.Split(m, ".")
			if len(parts) >= 3 {
				if T := e.lookupType(parts[0], parts[1], nil); T != nil {
					path := "." + strings.Join(parts[2:], ".")
					for _, l := range leaves(T) {
						if l.path == path || strings.HasPrefix(l.path, path+".") || strings.HasPrefix(l.path, path+"#") {
							ws.keys[regKey(fieldKey(T, l.path), l, 1)] = true
						}
					}
					continue
				}
			}
			ws.all, ws.allPlain = true, true
			ws.why = append(ws.why, fmt.Sprintf("modifies item %q of %s not resolvable statically", m, c.Key))
		}
	}
}

func (e *Engine) funcWrites(fr *Frame, fn *ssa.Function, cc *ssa.CallCommon, ws *writeSet, depth int, seen map[*ssa.Function]bool) {
	key := funcKey(fn)
	if isIntrinsic(key) {
		intrinsicWrites(key, ws)
		return
	}
	c := e.db.Contracts[key]
	if c != nil && !c.Inline && fn.Parent() == nil {
		e.contractWrites(c, ws, fn.Signature, false, nil, cc)
		return
	}
	if e.inRepo(fn) && depth < maxInlineDepth && !seen[fn] {
		seen[fn] = true
		// callee-local cells are fresh; its heap writes count. Closures write through captured cells.
		sub := &Frame{fn: fn, cellOf: map[*ssa.Alloc]int{}}
		if fn.Parent() == fr.fn {
			// closure of the current function: free variables bind to our allocs
			sub.free = make([]Val, len(fn.FreeVars))
			for i, fvv := range fn.FreeVars {
				_ = fvv
				sub.free[i] = Val{}
			}
			// find the MakeClosure to map bindings
			for _, b := range fr.fn.Blocks {
				for _, ins := range b.Instrs {
					if mc, ok := ins.(*ssa.MakeClosure); ok && mc.Fn == fn {
						for i, bd := range mc.Bindings {
							if a, ok := bd.(*ssa.Alloc); ok {
								if id, ok := fr.cellOf[a]; ok {
									sub.free[i] = Val{P: &Place{Kind: PLocal, Cell: id}}
								}
							}
						}
					}
				}
			}
		}
		e.blocksWrites(sub, fn.Blocks, ws, depth+1, seen)
		return
	}
	if noEffect(key) {
		return
	}
	if fn.Signature.Recv() != nil && len(cc.Args) > 0 {
		// receiver is args[0] for static method calls
	}
	for _, a := range cc.Args {
		if kindOf(a.Type()) != kIface {
			e.objectWrites(a.Type(), ws)
		}
	}
}

// ---------------------------------------------------------------------

func (e *Engine) loopBlocksSorted(l *Loop) []*ssa.BasicBlock {
	var bs []*ssa.BasicBlock
	for b := range l.Blocks {
		bs = append(bs, b)
	}
	sort.Slice(bs, func(i, j int) bool { return bs[i].Index < bs[j].Index })
	return bs
}

func (e *Engine) invEnv(fr *Frame, st *State, l *Loop) *SpecEnv {
	var pkg *types.Package
	if fr.fn.Pkg != nil {
		pkg = fr.fn.Pkg.Pkg
	} else if fr.fn.Parent() != nil && fr.fn.Parent().Pkg != nil {
		pkg = fr.fn.Parent().Pkg.Pkg
	}
	vars := map[string]SVal{}
	// entry values of parameters (old(x)) come from the outermost verified function or this frame
	for k, v := range fr.params {
		vars[k] = v
	}
	pre := e.entry
	if pre == nil {
		pre = st
	}
	return &SpecEnv{e: e, pre: pre, post: st, vars: vars, fr: fr, loop: l, pkg: pkg}
}

func (e *Engine) loopEnter(fr *Frame, st *State, l *Loop) {
	fnKey := funcKey(fr.fn)
	snap := st.clone()
	if st.loopEntry == nil {
		st.loopEntry = map[*Loop]*State{}
	}
	st.loopEntry[l] = snap
	if l.Spec != nil {
		if l.Spec.Header != "" && normWS(l.Spec.Header) != l.Text {
			// not a failure by itself (a renamed loop variable is harmless): the invariants are checked against
			// whatever loop now has this ordinal and fail on their own if they no longer fit
			e.note(fmt.Sprintf("loop %d of %s now reads %q; its invariants were written for %q", l.Ordinal, fnKey, l.Text, l.Spec.Header))
		}
		for i, inv := range l.Spec.Invs {
			env := e.invEnv(fr, st, l)
			g := env.evalBool(inv.E)
			e.emit(&Obligation{Kind: "inv-init", Fn: fnKey, Label: fmt.Sprintf("loop-%d:%s", l.Ordinal, orStr(inv.Label, fmt.Sprint(i+1))),
				PC: st.pc, Goal: g, Src: inv.Src, Line: inv.Line, Trace: st.trace})
		}
	}
	// havoc what the loop may write
	ws := newWriteSet()
	e.blocksWrites(fr, e.loopBlocksSorted(l), ws, fr.depth, map[*ssa.Function]bool{})
	var autoFrame []string
	if ws.all {
		restore := e.spareForWrites(st, ws)
		restore2 := e.spareExcepted(st, ws)
		st.havocAll()
		restore()
		restore2()
		for k := range ws.keys {
			if strings.HasPrefix(k, "G:") {
				st.havocKey(k) // havocAll spares ghosts: those the loop may write are named in the write set
			}
		}
		e.note(fmt.Sprintf("loop %d of %s: whole heap havocked (%s)", l.Ordinal, fnKey, strings.Join(ws.why, "; ")))
	} else {
		var ks []string
		for k := range ws.keys {
			ks = append(ks, k)
		}
		sort.Strings(ks)
		for _, k := range ks {
			// components the function's own frame does not allow it to change are preserved by every loop:
			// proved at entry and at the back edge, assumed after the havoc
			if e.frameProtected(k) {
				if _, known := heapSorts[k]; known {
					g := e.frameGoal(st, k)
					e.emit(&Obligation{Kind: "inv-init", Fn: fnKey, Label: fmt.Sprintf("loop-%d:auto-frame:%s", l.Ordinal, shortHeapKey(k)), PC: st.pc, Goal: g, Src: "frame of the function holds at loop entry for " + k, Trace: st.trace})
					autoFrame = append(autoFrame, k)
				}
			}
			st.havocKey(k)
		}
	}
	st.rebaseAlloc()
	// create the post-havoc symbols now so that their well-formedness bound is the allocation base of this iteration
	if !ws.all {
		for k := range ws.keys {
			if srt, known := heapSorts[k]; known {
				st.heapGet(k, srt)
			}
		}
	}
	for _, k := range autoFrame {
		st.assume(e.frameGoal(st, k))
	}
	l.autoFrame = autoFrame
	var cells []int
	for c := range ws.cells {
		cells = append(cells, c)
	}
	sort.Ints(cells)
	for _, c := range cells {
		old, ok := st.cells[c]
		if !ok {
			continue
		}
		st.cells[c] = e.havocVal(st, old, e.cellType(fr, c))
	}
	for it := range ws.iters {
		if mi := fr.iters[it]; mi != nil {
			old := st.cells[mi.cell]
			st.cells[mi.cell] = scalar(Fresh("visited", old.T.sort))
			if !mi.isStr {
				st.cells[mi.ncell] = scalar(Fresh("nvisited", SInt))
				st.assume(Ge(st.cells[mi.ncell].T, IntLit(0)))
			}
			if mi.isStr {
				st.assume(Ge(st.cells[mi.cell].T, IntLit(0)))
			}
		}
	}
	// free facts for slice range loops: -1 <= idx < len
	if c, ok := findRangeIndexCell(fr, l); ok {
		idx := st.cells[c].T
		st.assume(Ge(idx, IntLit(-1)))
		if ln := e.rangeLen(fr, st, l); ln != nil {
			st.assume(Lt(idx, ln))
		}
	}
	if l.Spec != nil {
		for _, inv := range l.Spec.Invs {
			env := e.invEnv(fr, st, l)
			st.assume(env.evalBool(inv.E))
		}
	}
}

// rangeLen finds the length register compared against in a rangeindex loop header.
func (e *Engine) rangeLen(fr *Frame, st *State, l *Loop) *Term {
	for _, ins := range l.Header.Instrs {
		if b, ok := ins.(*ssa.BinOp); ok && b.Op.String() == "<" {
			if v, ok := fr.regs[b.Y]; ok && v.T != nil {
				return v.T
			}
		}
	}
	return nil
}

func (e *Engine) cellType(fr *Frame, c int) types.Type {
	for f := fr; f != nil; f = f.parent {
		for a, id := range f.cellOf {
			if id == c {
				return a.Type().(*types.Pointer).Elem()
			}
		}
	}
	return nil
}

func (e *Engine) havocVal(st *State, old Val, t types.Type) Val {
	if t != nil {
		return st.freshVal("lv", t)
	}
	if old.Fs == nil {
		if old.T == nil {
			return old
		}
		return scalar(Fresh("lv", old.T.sort))
	}
	out := Val{Fs: make([]Val, len(old.Fs))}
	for i := range old.Fs {
		out.Fs[i] = e.havocVal(st, old.Fs[i], nil)
	}
	return out
}

func (e *Engine) loopBackEdge(fr *Frame, st *State, l *Loop) {
	fnKey := funcKey(fr.fn)
	if fr.depth == 0 && fr.fn == e.curFn && !st.dead && len(e.backCovers) < 400 {
		e.backCovers = append(e.backCovers, Outcome{st: st, site: "loop body at " + e.posOf(l.Pos)})
	}
	for _, k := range l.autoFrame {
		e.emit(&Obligation{Kind: "inv-step", Fn: fnKey, Label: fmt.Sprintf("loop-%d:auto-frame:%s", l.Ordinal, shortHeapKey(k)), PC: st.pc, Goal: e.frameGoal(st, k), Src: "frame of the function is preserved by the loop body for " + k, Trace: st.trace})
	}
	if l.Spec == nil {
		return
	}
	for i, inv := range l.Spec.Invs {
		env := e.invEnv(fr, st, l)
		g := env.evalBool(inv.E)
		e.emit(&Obligation{Kind: "inv-step", Fn: fnKey, Label: fmt.Sprintf("loop-%d:%s", l.Ordinal, orStr(inv.Label, fmt.Sprint(i+1))),
			PC: st.pc, Goal: g, Src: inv.Src, Line: inv.Line, Trace: st.trace})
	}
}

// frameProtected: the contract of the function under verification has a modifies clause that does not name k.
func (e *Engine) frameProtected(k string) bool {
	if e.frame == nil || e.frame.all {
		return false
	}
	return !e.frame.keys[k]
}

// frameGoal: pre-existing objects (other than those named object-wise by modifies) have their entry content in k.
func (e *Engine) frameGoal(st *State, k string) *Term {
	sortK := heapSorts[k]
	cur := st.heapGet(k, sortK)
	entry := e.entry.heapGet(k, sortK)
	if strings.HasPrefix(k, "G:") || strings.HasPrefix(k, "GV:") {
		return Eq(cur, entry)
	}
	r := BoundVar("fr_r", SInt)
	cond := And(Gt(r, IntLit(0)), Lt(r, alloc0()))
	for _, o := range e.frame.objs {
		if o.key == k {
			cond = And(cond, Ne(r, o.ref))
		}
	}
	if cur.isSym() {
		return Forall([]*Term{r}, Implies(cond, Eq(Select(cur, r), Select(entry, r))), Select(cur, r))
	}
	return Forall([]*Term{r}, Implies(cond, Eq(Select(cur, r), Select(entry, r))))
}

// regKey registers the sort of a heap component named by a write set before any path has touched it
// (so that the automatic frame invariant of a loop does not depend on the order functions are verified in).
func regKey(key string, l leaf, depth int) string {
	if _, ok := heapSorts[key]; !ok {
		srt := arrSort(SInt, l.sort)
		if depth == 2 {
			srt = arrSort(SInt, srt)
		}
		heapSorts[key] = srt
		noteLeaf(key, l)
	}
	return key
}

func btoi(b bool) int {
	if b {
		return 1
	}
	return 0
}

// spareExcepted: when the only reason a loop may write the whole heap is callees with `modifies * except T...`
// contracts, the fields of the types every one of them excepts (and that the loop does not store to itself)
// keep their values.
func (e *Engine) spareExcepted(st *State, ws *writeSet) func() {
	if ws.allPlain || len(ws.excepts) == 0 {
		return func() {}
	}
	count := map[string]int{}
	for _, l := range ws.excepts {
		seen := map[string]bool{}
		for _, t := range l {
			if !seen[t] {
				seen[t] = true
				count[t]++
			}
		}
	}
	keepH := map[string]*Term{}
	keepV := map[string]int{}
	for tn, n := range count {
		if n != len(ws.excepts) {
			continue
		}
		i := strings.LastIndex(tn, ".")
		if i < 0 {
			continue
		}
		T := e.lookupType(tn[:i], tn[i+1:], nil)
		if T == nil {
			continue
		}
		for _, l := range leaves(T) {
			k := fieldKey(T, l.path)
			if ws.keys[k] {
				continue
			}
			noteLeaf(k, l)
			keepH[k] = st.heapGet(k, arrSort(SInt, l.sort))
			if id, ok := st.hv[k]; ok {
				keepV[k] = id
			}
		}
	}
	return func() {
		for k, v := range keepH {
			st.heap[k] = v
		}
		for k, v := range keepV {
			st.hv[k] = v
		}
	}
}
