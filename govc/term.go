package main

import (
	"fmt"
	"math/big"
	"sort"
	"strings"
	"sync"
)

// Sorts are SMT-LIB sort strings.
const (
	SInt  = "Int"
	SBool = "Bool"
	SSeq  = "GSeq"
)

func arrSort(k, v string) string { return "(Array " + k + " " + v + ")" }

// arrParts splits "(Array K V)" into K, V.
func arrParts(s string) (string, string) {
	if !strings.HasPrefix(s, "(Array ") {
		panic("not an array sort: " + s)
	}
	body := s[len("(Array ") : len(s)-1]
	// K is either an atom or a parenthesised sort
	depth := 0
	for i, c := range body {
		switch c {
		case '(':
			depth++
		case ')':
			depth--
		case ' ':
			if depth == 0 {
				return body[:i], body[i+1:]
			}
		}
	}
	panic("bad array sort " + s)
}

// Term is an immutable hash-consed DAG node.
type Term struct {
	op    string // SMT operator, or symbol/literal name when len(args)==0
	args  []*Term
	sort  string
	id    int
	bound bool // mentions a bound (quantified) variable
	size  int
	// for quantifiers: op = "forall"/"exists", qvars holds binders, args[0] body
	qvars [][2]string
	pats  []*Term
}

type termTable struct {
	m    map[string]*Term
	next int
	// declared symbols: name -> sort ; functions: name -> signature
	syms  map[string]string
	funcs map[string]funcSig
	fresh map[string]int
}

type funcSig struct {
	args []string
	ret  string
}

var tt = &termTable{m: map[string]*Term{}, syms: map[string]string{}, funcs: map[string]funcSig{}, fresh: map[string]int{}}

func resetTerms() {
	tt = &termTable{m: map[string]*Term{}, syms: map[string]string{}, funcs: map[string]funcSig{}, fresh: map[string]int{}}
}

func mk(op, sort string, args ...*Term) *Term {
	var sb strings.Builder
	sb.WriteString(op)
	sb.WriteByte('|')
	sb.WriteString(sort)
	for _, a := range args {
		fmt.Fprintf(&sb, ",%d", a.id)
	}
	k := sb.String()
	if t, ok := tt.m[k]; ok {
		return t
	}
	t := &Term{op: op, args: args, sort: sort, id: tt.next, size: 1}
	tt.next++
	for _, a := range args {
		if a.bound {
			t.bound = true
		}
		t.size += a.size
		if t.size > 1<<30 {
			t.size = 1 << 30
		}
	}
	tt.m[k] = t
	return t
}

// smtName quotes a symbol for SMT-LIB.
func smtName(s string) string {
	ok := true
	for _, c := range s {
		if !(c >= 'a' && c <= 'z' || c >= 'A' && c <= 'Z' || c >= '0' && c <= '9' || c == '_' || c == '.' || c == '$' || c == '!' || c == '@') {
			ok = false
			break
		}
	}
	if ok && s != "" && !(s[0] >= '0' && s[0] <= '9') {
		return s
	}
	return "|" + strings.NewReplacer("|", "!", "\\", "/").Replace(s) + "|"
}

// Sym declares (once) and returns a constant symbol.
func Sym(name, sort string) *Term {
	if s, ok := tt.syms[name]; ok && s != sort {
		panic(fmt.Sprintf("symbol %s redeclared %s vs %s", name, s, sort))
	}
	tt.syms[name] = sort
	return mk("$sym:"+name, sort)
}

// Fresh returns a new symbol with a unique name based on hint.
func Fresh(hint, sort string) *Term {
	hint = strings.Map(func(r rune) rune {
		if r >= 'a' && r <= 'z' || r >= 'A' && r <= 'Z' || r >= '0' && r <= '9' || r == '_' || r == '.' {
			return r
		}
		return '_'
	}, hint)
	n := tt.fresh[hint]
	tt.fresh[hint] = n + 1
	return Sym(fmt.Sprintf("%s!%d", hint, n), sort)
}

// BoundVar is a quantified variable.
func BoundVar(name, sort string) *Term {
	t := mk("$bv:"+name, sort)
	t.bound = true
	return t
}

func (t *Term) isSym() bool { return strings.HasPrefix(t.op, "$sym:") }
func (t *Term) isBV() bool  { return strings.HasPrefix(t.op, "$bv:") }
func (t *Term) symName() string {
	if t.isSym() {
		return t.op[5:]
	}
	if t.isBV() {
		return t.op[4:]
	}
	return ""
}

func IntLit(v int64) *Term { return BigLit(big.NewInt(v)) }
func BigLit(v *big.Int) *Term {
	return mk("$int:"+v.String(), SInt)
}
func (t *Term) intVal() (*big.Int, bool) {
	if strings.HasPrefix(t.op, "$int:") {
		v, _ := new(big.Int).SetString(t.op[5:], 10)
		return v, true
	}
	return nil, false
}

var (
	tTrue  *Term
	tFalse *Term
)

func True() *Term  { return mk("true", SBool) }
func False() *Term { return mk("false", SBool) }
func BoolLit(b bool) *Term {
	if b {
		return True()
	}
	return False()
}
func (t *Term) isTrue() bool  { return t.op == "true" }
func (t *Term) isFalse() bool { return t.op == "false" }

func Not(a *Term) *Term {
	if a.isTrue() {
		return False()
	}
	if a.isFalse() {
		return True()
	}
	if a.op == "not" {
		return a.args[0]
	}
	return mk("not", SBool, a)
}

func And(as ...*Term) *Term {
	var out []*Term
	seen := map[int]bool{}
	for _, a := range as {
		if a == nil || a.isTrue() {
			continue
		}
		if a.isFalse() {
			return False()
		}
		if a.op == "and" {
			for _, b := range a.args {
				if !seen[b.id] {
					seen[b.id] = true
					out = append(out, b)
				}
			}
			continue
		}
		if !seen[a.id] {
			seen[a.id] = true
			out = append(out, a)
		}
	}
	for _, a := range out {
		if a.op == "not" && seen[a.args[0].id] {
			return False()
		}
	}
	if len(out) == 0 {
		return True()
	}
	if len(out) == 1 {
		return out[0]
	}
	return mk("and", SBool, out...)
}

func Or(as ...*Term) *Term {
	var out []*Term
	seen := map[int]bool{}
	for _, a := range as {
		if a == nil || a.isFalse() {
			continue
		}
		if a.isTrue() {
			return True()
		}
		if a.op == "or" {
			for _, b := range a.args {
				if !seen[b.id] {
					seen[b.id] = true
					out = append(out, b)
				}
			}
			continue
		}
		if !seen[a.id] {
			seen[a.id] = true
			out = append(out, a)
		}
	}
	if len(out) == 0 {
		return False()
	}
	if len(out) == 1 {
		return out[0]
	}
	return mk("or", SBool, out...)
}

func Implies(a, b *Term) *Term {
	if a.isTrue() {
		return b
	}
	if a.isFalse() || b.isTrue() {
		return True()
	}
	if b.isFalse() {
		return Not(a)
	}
	return mk("=>", SBool, a, b)
}

func Eq(a, b *Term) *Term {
	if a == b {
		return True()
	}
	if a.sort != b.sort {
		panic(fmt.Sprintf("Eq sort mismatch: %s:%s vs %s:%s", a, a.sort, b, b.sort))
	}
	if av, ok := a.intVal(); ok {
		if bv, ok := b.intVal(); ok {
			return BoolLit(av.Cmp(bv) == 0)
		}
	}
	if a.sort == SBool {
		if a.isTrue() {
			return b
		}
		if b.isTrue() {
			return a
		}
		if a.isFalse() {
			return Not(b)
		}
		if b.isFalse() {
			return Not(a)
		}
	}
	if isSeqLit(a) && isSeqLit(b) {
		return False() // distinct literals (same literal is the same node)
	}
	if a.id > b.id {
		a, b = b, a
	}
	return mk("=", SBool, a, b)
}

func Ne(a, b *Term) *Term { return Not(Eq(a, b)) }

func Ite(c, a, b *Term) *Term {
	if c.isTrue() {
		return a
	}
	if c.isFalse() {
		return b
	}
	if a == b {
		return a
	}
	if a.sort != b.sort {
		panic(fmt.Sprintf("Ite sort mismatch %s vs %s", a.sort, b.sort))
	}
	if a.sort == SBool {
		if a.isTrue() && b.isFalse() {
			return c
		}
		if a.isFalse() && b.isTrue() {
			return Not(c)
		}
	}
	return mk("ite", a.sort, c, a, b)
}

func cmp(op string, a, b *Term) *Term {
	if av, ok := a.intVal(); ok {
		if bv, ok := b.intVal(); ok {
			c := av.Cmp(bv)
			switch op {
			case "<":
				return BoolLit(c < 0)
			case "<=":
				return BoolLit(c <= 0)
			case ">":
				return BoolLit(c > 0)
			case ">=":
				return BoolLit(c >= 0)
			}
		}
	}
	if a == b {
		return BoolLit(op == "<=" || op == ">=")
	}
	return mk(op, SBool, a, b)
}
func Lt(a, b *Term) *Term { return cmp("<", a, b) }
func Le(a, b *Term) *Term { return cmp("<=", a, b) }
func Gt(a, b *Term) *Term { return cmp(">", a, b) }
func Ge(a, b *Term) *Term { return cmp(">=", a, b) }

func Add(a, b *Term) *Term {
	av, aok := a.intVal()
	bv, bok := b.intVal()
	if aok && bok {
		return BigLit(new(big.Int).Add(av, bv))
	}
	if aok && av.Sign() == 0 {
		return b
	}
	if bok && bv.Sign() == 0 {
		return a
	}
	// (x + c1) + c2
	if bok && a.op == "+" && len(a.args) == 2 {
		if cv, ok := a.args[1].intVal(); ok {
			return Add(a.args[0], BigLit(new(big.Int).Add(cv, bv)))
		}
	}
	if aok {
		return Add(b, a)
	}
	return mk("+", SInt, a, b)
}
func Sub(a, b *Term) *Term {
	av, aok := a.intVal()
	bv, bok := b.intVal()
	if aok && bok {
		return BigLit(new(big.Int).Sub(av, bv))
	}
	if bok {
		return Add(a, BigLit(new(big.Int).Neg(bv)))
	}
	if a == b {
		return IntLit(0)
	}
	return mk("-", SInt, a, b)
}
func Neg(a *Term) *Term { return Sub(IntLit(0), a) }

// Mul: linear when one side is a literal, otherwise the opaque function mul(x,y).
func Mul(a, b *Term) *Term {
	av, aok := a.intVal()
	bv, bok := b.intVal()
	if aok && bok {
		return BigLit(new(big.Int).Mul(av, bv))
	}
	if aok {
		if av.Sign() == 0 {
			return IntLit(0)
		}
		if av.Cmp(big.NewInt(1)) == 0 {
			return b
		}
		return mk("*", SInt, a, b)
	}
	if bok {
		return Mul(b, a)
	}
	if a.id > b.id {
		a, b = b, a
	}
	return mk("*", SInt, a, b)
}

// Div/Mod: mathematical (SMT-LIB euclidean) on literals divisors, else opaque
func EDiv(a, b *Term) *Term {
	if bv, ok := b.intVal(); ok && bv.Sign() != 0 {
		if av, ok := a.intVal(); ok {
			q, _ := new(big.Int).DivMod(av, bv, new(big.Int))
			return BigLit(q)
		}
		return mk("div", SInt, a, b)
	}
	return App("ediv", SInt, a, b)
}
func EMod(a, b *Term) *Term {
	if bv, ok := b.intVal(); ok && bv.Sign() != 0 {
		if av, ok := a.intVal(); ok {
			_, m := new(big.Int).DivMod(av, bv, new(big.Int))
			return BigLit(m)
		}
		return mk("mod", SInt, a, b)
	}
	return App("emod", SInt, a, b)
}

// App applies an uninterpreted function (declared on first use).
func App(fn, ret string, args ...*Term) *Term {
	sig := funcSig{ret: ret}
	for _, a := range args {
		sig.args = append(sig.args, a.sort)
	}
	if old, ok := tt.funcs[fn]; ok {
		if old.ret != ret || strings.Join(old.args, ",") != strings.Join(sig.args, ",") {
			panic(fmt.Sprintf("function %s used with different signatures: %v->%s vs %v->%s", fn, old.args, old.ret, sig.args, ret))
		}
	} else {
		tt.funcs[fn] = sig
	}
	return mk("$app:"+fn, ret, args...)
}

func Select(arr, idx *Term) *Term {
	k, v := arrParts(arr.sort)
	if k != idx.sort {
		panic(fmt.Sprintf("select index sort %s vs %s in %s", idx.sort, k, arr))
	}
	// read-over-write simplification
	a := arr
	for a.op == "store" {
		if a.args[1] == idx {
			return a.args[2]
		}
		if definitelyDistinct(a.args[1], idx) {
			a = a.args[0]
			continue
		}
		break
	}
	if a.op == "$constarr" {
		return a.args[0]
	}
	return mk("select", v, a, idx)
}

func definitelyDistinct(a, b *Term) bool {
	if av, ok := a.intVal(); ok {
		if bv, ok := b.intVal(); ok {
			return av.Cmp(bv) != 0
		}
	}
	if isSeqLit(a) && isSeqLit(b) && a != b {
		return true
	}
	return false
}

func Store(arr, idx, val *Term) *Term {
	k, v := arrParts(arr.sort)
	if k != idx.sort || v != val.sort {
		panic(fmt.Sprintf("store sorts: arr %s idx %s val %s", arr.sort, idx.sort, val.sort))
	}
	if arr.op == "store" && arr.args[1] == idx {
		return Store(arr.args[0], idx, val)
	}
	return mk("store", arr.sort, arr, idx, val)
}

// ConstArr is ((as const sort) v).
func ConstArr(sort string, v *Term) *Term {
	return mk("$constarr", sort, v)
}

// SeqLit returns the constant for a string literal; distinct literals are distinct.
func SeqLit(s string) *Term {
	return mk("$seq:"+s, SSeq)
}
func isSeqLit(t *Term) bool { return strings.HasPrefix(t.op, "$seq:") }

// MultiPat groups terms into one multi-pattern (all must match).
func MultiPat(ts ...*Term) *Term {
	if len(ts) == 1 {
		return ts[0]
	}
	return mk("$mpat", SBool, ts...)
}

func Forall(vars []*Term, body *Term, pats ...*Term) *Term { return quant("forall", vars, body, pats) }
func Exists(vars []*Term, body *Term, pats ...*Term) *Term { return quant("exists", vars, body, pats) }

func quant(q string, vars []*Term, body *Term, pats []*Term) *Term {
	if body.isTrue() || body.isFalse() {
		return body
	}
	var sb strings.Builder
	sb.WriteString(q)
	for _, v := range vars {
		fmt.Fprintf(&sb, " %d", v.id)
	}
	for _, p := range pats {
		fmt.Fprintf(&sb, " p%d", p.id)
	}
	k := fmt.Sprintf("%s|%d", sb.String(), body.id)
	if t, ok := tt.m[k]; ok {
		return t
	}
	t := &Term{op: q, args: []*Term{body}, sort: SBool, id: tt.next, size: body.size + 1, pats: pats}
	tt.next++
	for _, v := range vars {
		t.qvars = append(t.qvars, [2]string{v.symName(), v.sort})
	}
	// bound stays true if body mentions variables bound further out
	t.bound = mentionsBoundOtherThan(body, vars)
	tt.m[k] = t
	return t
}

func mentionsBoundOtherThan(t *Term, vars []*Term) bool {
	if !t.bound {
		return false
	}
	in := map[int]bool{}
	for _, v := range vars {
		in[v.id] = true
	}
	seen := map[int]bool{}
	var rec func(*Term) bool
	rec = func(x *Term) bool {
		if !x.bound || seen[x.id] {
			return false
		}
		seen[x.id] = true
		if x.isBV() {
			return !in[x.id]
		}
		if x.op == "forall" || x.op == "exists" {
			// own binders are not free
			return x.bound
		}
		for _, a := range x.args {
			if rec(a) {
				return true
			}
		}
		return false
	}
	return rec(t)
}

// Subst replaces terms (by identity) throughout t.
func Subst(t *Term, m map[*Term]*Term) *Term {
	if len(m) == 0 {
		return t
	}
	cache := map[int]*Term{}
	var rec func(*Term) *Term
	rec = func(x *Term) *Term {
		if r, ok := m[x]; ok {
			return r
		}
		if len(x.args) == 0 {
			return x
		}
		if r, ok := cache[x.id]; ok {
			return r
		}
		changed := false
		na := make([]*Term, len(x.args))
		for i, a := range x.args {
			na[i] = rec(a)
			if na[i] != a {
				changed = true
			}
		}
		var r *Term
		if !changed {
			r = x
		} else if x.op == "forall" || x.op == "exists" {
			var vars []*Term
			for _, qv := range x.qvars {
				vars = append(vars, BoundVar(qv[0], qv[1]))
			}
			var np []*Term
			for _, p := range x.pats {
				np = append(np, rec(p))
			}
			r = quant(x.op, vars, na[0], np)
		} else {
			r = rebuild(x, na)
		}
		cache[x.id] = r
		return r
	}
	return rec(t)
}

func rebuild(x *Term, na []*Term) *Term {
	switch x.op {
	case "and":
		return And(na...)
	case "or":
		return Or(na...)
	case "not":
		return Not(na[0])
	case "=>":
		return Implies(na[0], na[1])
	case "=":
		return Eq(na[0], na[1])
	case "ite":
		return Ite(na[0], na[1], na[2])
	case "+":
		return Add(na[0], na[1])
	case "-":
		return Sub(na[0], na[1])
	case "<":
		return Lt(na[0], na[1])
	case "<=":
		return Le(na[0], na[1])
	case ">":
		return Gt(na[0], na[1])
	case ">=":
		return Ge(na[0], na[1])
	case "select":
		return Select(na[0], na[1])
	case "store":
		return Store(na[0], na[1], na[2])
	}
	return mk(x.op, x.sort, na...)
}

// ---------------------------------------------------------------------
// Printing

func (t *Term) String() string {
	var sb strings.Builder
	printTerm(&sb, t, nil)
	return sb.String()
}

func printTerm(sb *strings.Builder, t *Term, names map[int]string) {
	if names != nil {
		if n, ok := names[t.id]; ok {
			sb.WriteString(n)
			return
		}
	}
	switch {
	case t.isSym() || t.isBV():
		sb.WriteString(smtName(t.symName()))
	case strings.HasPrefix(t.op, "$int:"):
		v := t.op[5:]
		if v[0] == '-' {
			sb.WriteString("(- " + v[1:] + ")")
		} else {
			sb.WriteString(v)
		}
	case strings.HasPrefix(t.op, "$seq:"):
		sb.WriteString(seqLitName(t.op[5:]))
	case t.op == "$constarr":
		sb.WriteString("((as const " + t.sort + ") ")
		printTerm(sb, t.args[0], names)
		sb.WriteString(")")
	case t.op == "forall" || t.op == "exists":
		sb.WriteString("(" + t.op + " (")
		for _, v := range t.qvars {
			sb.WriteString("(" + smtName(v[0]) + " " + v[1] + ")")
		}
		sb.WriteString(") ")
		if len(t.pats) > 0 {
			sb.WriteString("(! ")
		}
		printTerm(sb, t.args[0], names)
		if len(t.pats) > 0 {
			for _, p := range t.pats {
				sb.WriteString(" :pattern (")
				if p.op == "$mpat" {
					for i, a := range p.args {
						if i > 0 {
							sb.WriteString(" ")
						}
						printTerm(sb, a, names)
					}
				} else {
					printTerm(sb, p, names)
				}
				sb.WriteString(")")
			}
			sb.WriteString(")")
		}
		sb.WriteString(")")
	case strings.HasPrefix(t.op, "$app:"):
		if len(t.args) == 0 {
			sb.WriteString(smtName(t.op[5:]))
			return
		}
		sb.WriteString("(" + smtName(t.op[5:]))
		for _, a := range t.args {
			sb.WriteString(" ")
			printTerm(sb, a, names)
		}
		sb.WriteString(")")
	case len(t.args) == 0:
		sb.WriteString(t.op)
	default:
		sb.WriteString("(" + t.op)
		for _, a := range t.args {
			sb.WriteString(" ")
			printTerm(sb, a, names)
		}
		sb.WriteString(")")
	}
}

func seqLitName(s string) string {
	var sb strings.Builder
	sb.WriteString("lit$")
	for _, c := range []byte(s) {
		if c >= 'a' && c <= 'z' || c >= 'A' && c <= 'Z' || c >= '0' && c <= '9' {
			sb.WriteByte(c)
		} else {
			fmt.Fprintf(&sb, "_%02x", c)
		}
	}
	return sb.String()
}

// Query renders an SMT-LIB2 script: declarations for every symbol/function
// mentioned, the axioms, the assertions, check-sat, get-model.
type Query struct {
	Name    string
	Asserts []*Term // conjunction must be unsat for the obligation to hold
	Axioms  []*Term
	Expect  string // "unsat" (obligation) or "sat" (vacuity guard)
}

func collect(ts []*Term) (syms map[string]string, funcs map[string]funcSig, lits map[string]bool, shared map[int]*Term, order []*Term) {
	syms = map[string]string{}
	funcs = map[string]funcSig{}
	lits = map[string]bool{}
	count := map[int]int{}
	seen := map[int]bool{}
	var rec func(*Term)
	rec = func(t *Term) {
		count[t.id]++
		if seen[t.id] {
			return
		}
		seen[t.id] = true
		switch {
		case t.isSym():
			syms[t.symName()] = t.sort
		case strings.HasPrefix(t.op, "$seq:"):
			lits[t.op[5:]] = true
		case strings.HasPrefix(t.op, "$app:"):
			fn := t.op[5:]
			funcs[fn] = tt.funcs[fn]
		}
		for _, a := range t.args {
			rec(a)
		}
		for _, p := range t.pats {
			rec(p)
		}
		order = append(order, t) // post-order: children first
	}
	for _, t := range ts {
		rec(t)
	}
	shared = map[int]*Term{}
	for _, t := range order {
		if count[t.id] > 1 && len(t.args) > 0 && !t.bound && t.size > 3 {
			shared[t.id] = t
		}
	}
	return
}

// relevantAxioms keeps the axioms whose uninterpreted function symbols all... any occur in the
// assertions (closed transitively); ground axioms over plain symbols are always kept.
var fnsCache sync.Map // term id -> map[string]bool (read-only once stored)

func relevantAxioms(axioms, asserts []*Term) []*Term {
	// the symbol set of a term is computed once per term (terms are hash-consed and the same path conditions and
	// axioms recur in every query of a run)
	fnsOf := func(t *Term) map[string]bool {
		if v, ok := fnsCache.Load(t.id); ok {
			return v.(map[string]bool)
		}
		out := map[string]bool{}
		seen := map[int]bool{}
		var rec func(*Term)
		rec = func(x *Term) {
			if seen[x.id] {
				return
			}
			seen[x.id] = true
			if strings.HasPrefix(x.op, "$app:") {
				out[x.op[5:]] = true
			}
			if x.isSym() {
				out["sym:"+x.symName()] = true
			}
			for _, a := range x.args {
				rec(a)
			}
			for _, p := range x.pats {
				rec(p)
			}
		}
		rec(t)
		fnsCache.Store(t.id, out)
		return out
	}
	have := map[string]bool{}
	for _, a := range asserts {
		for f := range fnsOf(a) {
			have[f] = true
		}
	}
	axFns := make([]map[string]bool, len(axioms))
	// a quantified axiom with explicit triggers can only ever be instantiated when, for one of its triggers, every
	// function symbol of the trigger occurs among the terms of the query: patFns[i] holds those symbol sets
	patFns := make([][]map[string]bool, len(axioms))
	for i, a := range axioms {
		axFns[i] = fnsOf(a)
		if a.op == "forall" && len(a.pats) > 0 {
			for _, p := range a.pats {
				fs := map[string]bool{}
				for f := range fnsOf(p) {
					if !strings.HasPrefix(f, "sym:") {
						fs[f] = true
					}
				}
				if len(fs) > 0 {
					patFns[i] = append(patFns[i], fs)
				}
			}
		}
	}
	used := make([]bool, len(axioms))
	for changed := true; changed; {
		changed = false
		for i := range axioms {
			if used[i] {
				continue
			}
			hit := len(axFns[i]) == 0
			if len(patFns[i]) > 0 {
				for _, fs := range patFns[i] {
					all := true
					for f := range fs {
						if !have[f] {
							all = false
							break
						}
					}
					if all {
						hit = true
						break
					}
				}
			} else {
				for f := range axFns[i] {
					if have[f] {
						hit = true
						break
					}
				}
			}
			if hit {
				used[i] = true
				changed = true
				for f := range axFns[i] {
					have[f] = true
				}
			}
		}
	}
	var out []*Term
	for i, a := range axioms {
		if used[i] {
			out = append(out, a)
		}
	}
	return out
}

func (q *Query) SMT(produceModels bool) string {
	q.Axioms = relevantAxioms(q.Axioms, q.Asserts)
	all := append(append([]*Term{}, q.Axioms...), q.Asserts...)
	syms, funcs, lits, shared, order := collect(all)
	var sb strings.Builder
	if produceModels {
		sb.WriteString("(set-option :produce-models true)\n")
	}
	sb.WriteString("(set-logic ALL)\n")
	sb.WriteString("(declare-sort GSeq 0)\n")
	var names []string
	for n := range syms {
		names = append(names, n)
	}
	sort.Strings(names)
	for _, n := range names {
		fmt.Fprintf(&sb, "(declare-fun %s () %s)\n", smtName(n), syms[n])
	}
	names = names[:0]
	for n := range funcs {
		names = append(names, n)
	}
	sort.Strings(names)
	for _, n := range names {
		fmt.Fprintf(&sb, "(declare-fun %s (%s) %s)\n", smtName(n), strings.Join(funcs[n].args, " "), funcs[n].ret)
	}
	names = names[:0]
	for n := range lits {
		names = append(names, n)
	}
	sort.Strings(names)
	var ln []string
	for _, n := range names {
		fmt.Fprintf(&sb, "(declare-fun %s () GSeq) ; %q\n", seqLitName(n), n)
		ln = append(ln, seqLitName(n))
	}
	if len(ln) > 1 {
		fmt.Fprintf(&sb, "(assert (distinct %s))\n", strings.Join(ln, " "))
	}
	// shared subterms as define-fun in dependency (post) order
	nm := map[int]string{}
	for _, t := range order {
		if _, ok := shared[t.id]; ok {
			var b strings.Builder
			printTerm(&b, t, nm)
			name := fmt.Sprintf("$t%d", t.id)
			fmt.Fprintf(&sb, "(define-fun %s () %s %s)\n", name, t.sort, b.String())
			nm[t.id] = name
		}
	}
	for _, a := range q.Axioms {
		var b strings.Builder
		printTerm(&b, a, nm)
		fmt.Fprintf(&sb, "(assert %s)\n", b.String())
	}
	for _, a := range q.Asserts {
		var b strings.Builder
		printTerm(&b, a, nm)
		fmt.Fprintf(&sb, "(assert %s)\n", b.String())
	}
	sb.WriteString("(check-sat)\n")
	if produceModels {
		sb.WriteString("(get-model)\n")
	}
	return sb.String()
}

// mentions reports whether t syntactically mentions any symbol whose name has the prefix.
func mentionsSymPrefix(t *Term, prefix string) bool {
	seen := map[int]bool{}
	var rec func(*Term) bool
	rec = func(x *Term) bool {
		if seen[x.id] {
			return false
		}
		seen[x.id] = true
		if x.isSym() && strings.HasPrefix(x.symName(), prefix) {
			return true
		}
		for _, a := range x.args {
			if rec(a) {
				return true
			}
		}
		return false
	}
	return rec(t)
}
