package main

import (
	"encoding/json"
	"fmt"
	"os"
	"os/exec"
	"path/filepath"
	"regexp"
	"strings"
	"time"
)

// ReplayTemplate says how a counterexample of a function is turned into a run of the real code.
// Probes are spec expressions over the function's entry state; their values in the solver's
// model become the JSON input of an in-package Go test injected with `go test -overlay`.
type ReplayTemplate struct {
	Function string            `json:"function"`
	Pkg      string            `json:"pkg"`       // package directory relative to /repo
	TestFile string            `json:"test_file"` // under /verif/replay_templates
	TestName string            `json:"test_name"`
	Probes   map[string]string `json:"probes"`
	LdFlags  string            `json:"ldflags"`
	// Domains: small value sets per probe; after the solver's candidate the harness tries their product
	// (a bounded search for a failing input on the real code, guided by the failed obligation)
	Domains map[string][]string `json:"domains"`
	// ExtraFiles: further test files injected alongside (shared helpers); FixedValues: values passed as they are
	ExtraFiles  []string          `json:"extra_files"`
	FixedValues map[string]string `json:"fixed_values"`
}

func loadTemplates() map[string]*ReplayTemplate {
	out := map[string]*ReplayTemplate{}
	files, _ := filepath.Glob(filepath.Join(verifDir, "replay_templates", "*.json"))
	for _, f := range files {
		b, err := os.ReadFile(f)
		if err != nil {
			continue
		}
		var t ReplayTemplate
		if json.Unmarshal(b, &t) == nil && t.Function != "" {
			out[t.Function] = &t
		}
	}
	return out
}

// evalProbes turns the probe expressions of a template into terms over the entry state.
func (e *Engine) evalProbes(fnPkg interface{}, t *ReplayTemplate) (map[string]*Term, error) {
	out := map[string]*Term{}
	for name, src := range t.Probes {
		ex, err := parseExpr(src)
		if err != nil {
			return nil, fmt.Errorf("probe %s: %v", name, err)
		}
		var tm *Term
		func() {
			defer func() {
				if r := recover(); r != nil {
					if u, ok := r.(unsupported); ok {
						err = fmt.Errorf("probe %s: %s", name, u.msg)
						return
					}
					panic(r)
				}
			}()
			env := &SpecEnv{e: e, pre: e.entry, post: e.entry, vars: e.entryParams, paramsFirst: true}
			if e.curFn != nil && e.curFn.Pkg != nil {
				env.pkg = e.curFn.Pkg.Pkg
			}
			v := env.eval(ex)
			tm = v.V.T
		}()
		if err != nil {
			return nil, err
		}
		out[name] = tm
	}
	return out, nil
}

var valRe = regexp.MustCompile(`^\(\s*(\S+)\s+(.*)\)$`)

// probeModel re-runs a sat query asking for the values of the probe terms.
func probeModel(smt string, probes map[string]*Term, dir string) (map[string]string, string) {
	// strip (get-model), add named probes through define-fun'd constants
	smt = strings.Replace(smt, "(get-model)\n", "", 1)
	var names []string
	var sb strings.Builder
	// probes may mention symbols not in the query (unconstrained) -> declare them
	declared := map[string]bool{}
	for _, line := range strings.Split(smt, "\n") {
		if strings.HasPrefix(line, "(declare-fun ") || strings.HasPrefix(line, "(define-fun ") {
			f := strings.Fields(line)
			if len(f) > 1 {
				declared[f[1]] = true
			}
		}
	}
	var pre strings.Builder
	var keys []string
	for k := range probes {
		keys = append(keys, k)
	}
	sortStrings(keys)
	for _, k := range keys {
		t := probes[k]
		syms, funcs, lits, _, _ := collect([]*Term{t})
		for n, s := range syms {
			if !declared[smtName(n)] {
				declared[smtName(n)] = true
				fmt.Fprintf(&pre, "(declare-fun %s () %s)\n", smtName(n), s)
			}
		}
		for n, sig := range funcs {
			if !declared[smtName(n)] {
				declared[smtName(n)] = true
				fmt.Fprintf(&pre, "(declare-fun %s (%s) %s)\n", smtName(n), strings.Join(sig.args, " "), sig.ret)
			}
		}
		for n := range lits {
			if !declared[seqLitName(n)] {
				declared[seqLitName(n)] = true
				fmt.Fprintf(&pre, "(declare-fun %s () GSeq)\n", seqLitName(n))
			}
		}
		fmt.Fprintf(&sb, "(get-value (%s))\n", t.String())
		names = append(names, k)
	}
	// insert declarations before the first assert
	idx := strings.Index(smt, "(assert ")
	if idx < 0 {
		idx = len(smt)
	}
	full := smt[:idx] + pre.String() + smt[idx:] + sb.String()
	file := filepath.Join(dir, fmt.Sprintf("probe_%d.smt2", time.Now().UnixNano()))
	os.WriteFile(file, []byte(full), 0o644)
	r := runSolver(solvers[0], file, 20)
	if r.answer != "sat" {
		r = runSolver(solvers[1], file, 20)
	}
	if r.answer != "sat" {
		return nil, r.output
	}
	lines := strings.Split(strings.TrimSpace(r.output), "\n")
	vals := map[string]string{}
	// one (get-value) answer per probe, possibly spanning lines: join and split on top-level "((" groups
	rest := strings.Join(lines[1:], " ")
	groups := splitTopLevel(rest)
	for i, g := range groups {
		if i >= len(names) {
			break
		}
		// g = ((term value))
		g = strings.TrimSpace(g)
		g = strings.TrimPrefix(g, "(")
		g = strings.TrimSuffix(g, ")")
		g = strings.TrimSpace(g)
		// value is the last s-expression
		v := lastSexp(g)
		vals[names[i]] = normValue(v)
	}
	return vals, r.output
}

func sortStrings(s []string) {
	for i := 1; i < len(s); i++ {
		for j := i; j > 0 && s[j] < s[j-1]; j-- {
			s[j], s[j-1] = s[j-1], s[j]
		}
	}
}

func splitTopLevel(s string) []string {
	var out []string
	depth, start := 0, -1
	inBar := false
	for i, c := range s {
		if c == '|' {
			inBar = !inBar
		}
		if inBar {
			continue
		}
		switch c {
		case '(':
			if depth == 0 {
				start = i
			}
			depth++
		case ')':
			depth--
			if depth == 0 && start >= 0 {
				out = append(out, s[start:i+1])
				start = -1
			}
		}
	}
	return out
}

func lastSexp(s string) string {
	s = strings.TrimSpace(s)
	s = strings.TrimPrefix(s, "(")
	s = strings.TrimSuffix(s, ")")
	s = strings.TrimSpace(s)
	// scan from the end
	if strings.HasSuffix(s, ")") {
		depth := 0
		for i := len(s) - 1; i >= 0; i-- {
			switch s[i] {
			case ')':
				depth++
			case '(':
				depth--
				if depth == 0 {
					return s[i:]
				}
			}
		}
	}
	if i := strings.LastIndexAny(s, " \t"); i >= 0 {
		return s[i+1:]
	}
	return s
}

func normValue(v string) string {
	v = strings.TrimSpace(v)
	if strings.HasPrefix(v, "(-") {
		inner := strings.TrimSpace(strings.TrimSuffix(strings.TrimPrefix(v, "(-"), ")"))
		return "-" + inner
	}
	return v
}

// runReplay executes the template test on the real package; returns (confirmed, log).
func runReplay(t *ReplayTemplate, clause string, vals map[string]string, workDir string) (bool, string) {
	if vals == nil {
		vals = map[string]string{}
	}
	for k, v := range t.FixedValues {
		vals[k] = v
	}
	in := map[string]interface{}{"clause": clause, "values": vals, "domains": t.Domains}
	b, _ := json.MarshalIndent(in, "", " ")
	inFile := filepath.Join(workDir, "replay_input.json")
	os.WriteFile(inFile, b, 0o644)
	repo := repoDir()
	target := filepath.Join(repo, t.Pkg, "zz_govc_replay_test.go")
	repl := map[string]string{target: filepath.Join(verifDir, "replay_templates", t.TestFile)}
	for i, f := range t.ExtraFiles {
		if f != t.TestFile {
			repl[filepath.Join(repo, t.Pkg, fmt.Sprintf("zz_govc_replay_%d_test.go", i))] = filepath.Join(verifDir, "replay_templates", f)
		}
	}
	ov := map[string]interface{}{"Replace": repl}
	ob, _ := json.Marshal(ov)
	ovFile := filepath.Join(workDir, "overlay.json")
	os.WriteFile(ovFile, ob, 0o644)
	args := []string{"test", "-mod=mod", "-overlay", ovFile, "-vet=off", "-count=1", "-timeout", "120s", "-run", "^" + t.TestName + "$", "-v"}
	if t.LdFlags != "" {
		args = append(args, "-ldflags="+t.LdFlags)
	}
	args = append(args, "./"+t.Pkg)
	cmd := exec.Command("go", args...)
	cmd.Dir = repo
	cmd.Env = append(os.Environ(), "GOFLAGS=-mod=mod", "GOPROXY=off", "GOSUMDB=off", "GOTOOLCHAIN=local", "GOVC_REPLAY_INPUT="+inFile, "GOVC_REPLAY_CLAUSE="+clause)
	out, _ := cmd.CombinedOutput()
	s := string(out)
	if len(s) > 8000 {
		s = s[len(s)-8000:]
	}
	return strings.Contains(s, "REPLAY-CONFIRMED") && !strings.Contains(s, "REPLAY-NOT-CONFIRMED"), s
}
