package main

// Write confinement of unexported struct fields.
//
//	//@ confined executor.BlockExecutor.currentBlockHash
//
// An unexported field can only be selected inside its own package, so every store to it is visible in
// that package's SSA. The analysis below finds the functions that store to the field on an object that
// already existed (W), the functions that can reach one of those through static calls (their ancestors),
// and whether any member of W ∪ ancestors can be reached in another way than a static call: as a function
// value, as a closure that leaves its creator, as an exported function or method (callable from other
// packages), or through an interface method of the same name. When none can, code that starts in a
// function outside W ∪ ancestors never executes a store to the field: its static calls stay outside the
// set by construction and its dynamic calls can only reach functions that escaped, none of which is in
// the set. A call to such a function, and any dynamic call, therefore leaves the field of every existing
// object as it was, whatever the callee's modifies clause says, and the engine keeps that heap component
// across the call.
//
// Not covered, and listed with the evidence: stores through unsafe or reflection, a whole-struct
// assignment `*p = v` made in a package that was not loaded, and goroutines (`go` edges are not followed:
// the engine reasons about one thread, as everywhere else).

import (
	"fmt"
	"go/ast"
	"go/types"
	"sort"
	"strings"
	"sync"

	"golang.org/x/tools/go/ssa"
	"golang.org/x/tools/go/ssa/ssautil"
)

type confKey struct {
	item    string
	keys    []string // heap components of the field
	sorts   map[string]string
	blocked map[*ssa.Function]bool // W ∪ ancestors
	open    bool                   // confinement does not hold (reason in why)
	why     string
	writers []string
}

var (
	confMu    sync.Mutex
	confCache = map[*World][]*confKey{}
)

func (e *Engine) confined() []*confKey {
	if len(e.db.Confined) == 0 {
		return nil
	}
	confMu.Lock()
	defer confMu.Unlock()
	if c, ok := confCache[e.w]; ok {
		return c
	}
	var out []*confKey
	var all map[*ssa.Function]bool
	for _, item := range e.db.Confined {
		if all == nil {
			all = ssautil.AllFunctions(e.w.Prog)
		}
		out = append(out, e.analyseConfined(item, all))
	}
	confCache[e.w] = out
	return out
}

func (e *Engine) analyseConfined(item string, all map[*ssa.Function]bool) *confKey {
	ck := &confKey{item: item, sorts: map[string]string{}, blocked: map[*ssa.Function]bool{}}
	fail := func(f string, a ...interface{}) *confKey {
		ck.open = true
		ck.why = fmt.Sprintf(f, a...)
		return ck
	}
	parts := strings.Split(item, ".")
	if len(parts) != 3 {
		return fail("want pkg.Type.field")
	}
	if ast.IsExported(parts[2]) {
		return fail("field is exported: other packages can store to it")
	}
	T := e.lookupType(parts[0], parts[1], nil)
	if T == nil {
		return fail("type not found")
	}
	named, ok := T.(*types.Named)
	if !ok || named.Obj().Pkg() == nil {
		return fail("not a named struct type")
	}
	sp := e.w.SSA[named.Obj().Pkg().Path()]
	if sp == nil {
		return fail("package %s is not loaded in this run", named.Obj().Pkg().Path())
	}
	stT, ok := named.Underlying().(*types.Struct)
	if !ok {
		return fail("not a struct type")
	}
	fieldIdx := -1
	for i := 0; i < stT.NumFields(); i++ {
		if stT.Field(i).Name() == parts[2] {
			fieldIdx = i
		}
	}
	if fieldIdx < 0 {
		return fail("no such field")
	}
	path := "." + parts[2]
	for _, l := range leaves(T) {
		if l.path == path || strings.HasPrefix(l.path, path+".") || strings.HasPrefix(l.path, path+"#") {
			k := fieldKey(T, l.path)
			noteLeaf(k, l)
			if _, ok := heapSorts[k]; !ok {
				heapSorts[k] = arrSort(SInt, l.sort)
			}
			ck.keys = append(ck.keys, k)
			ck.sorts[k] = heapSorts[k]
		}
	}
	if len(ck.keys) == 0 {
		return fail("field has no heap component in the model")
	}

	// functions of the package (named, methods, anonymous), plus synthetic wrappers that call into it
	inPkg := func(fn *ssa.Function) bool {
		for f := fn; f != nil; f = f.Parent() {
			if f.Pkg == sp {
				return true
			}
		}
		return false
	}
	isFreshBase := func(v ssa.Value) bool {
		for {
			switch x := v.(type) {
			case *ssa.Alloc:
				return true
			case *ssa.FieldAddr:
				v = x.X
			default:
				return false
			}
		}
	}
	isT := func(t types.Type) bool {
		if p, ok := t.Underlying().(*types.Pointer); ok {
			return types.Identical(p.Elem(), T)
		}
		return false
	}
	writers := map[*ssa.Function]bool{}
	edges := map[*ssa.Function][]*ssa.Function{} // callee -> callers
	valueUsed := map[*ssa.Function]string{}
	invoked := map[string]bool{}
	var escapes []string

	staticCallees := func(cc *ssa.CallCommon) []*ssa.Function {
		g := cc.StaticCallee()
		if g == nil {
			return nil
		}
		if g.Synthetic != "" && g.Pkg == nil && len(g.Blocks) > 0 {
			// wrapper (promoted / bound method, thunk): what it calls
			var out []*ssa.Function
			for _, b := range g.Blocks {
				for _, ins := range b.Instrs {
					if c, ok := ins.(ssa.CallInstruction); ok {
						if h := c.Common().StaticCallee(); h != nil {
							out = append(out, h)
						}
					}
				}
			}
			return out
		}
		return []*ssa.Function{g}
	}

	var fns []*ssa.Function
	for fn := range all {
		if inPkg(fn) && len(fn.Blocks) > 0 {
			fns = append(fns, fn)
		}
	}
	sort.Slice(fns, func(i, j int) bool { return fns[i].String() < fns[j].String() })
	for _, fn := range fns {
		for _, b := range fn.Blocks {
			for _, ins := range b.Instrs {
				switch x := ins.(type) {
				case *ssa.FieldAddr:
					if !isT(x.X.Type()) || x.Field != fieldIdx {
						break
					}
					// every use of the field's address
					work := []ssa.Value{x}
					for len(work) > 0 {
						a := work[0]
						work = work[1:]
						if a.Referrers() == nil {
							continue
						}
						for _, r := range *a.Referrers() {
							switch u := r.(type) {
							case *ssa.UnOp, *ssa.DebugRef:
							case *ssa.FieldAddr:
								work = append(work, u)
							case *ssa.IndexAddr:
								work = append(work, u)
							case *ssa.Store:
								if u.Val == a {
									escapes = append(escapes, fmt.Sprintf("address of the field is stored in %s", fn))
								} else if !isFreshBase(x.X) {
									writers[fn] = true
								}
							default:
								escapes = append(escapes, fmt.Sprintf("address of the field is used by %T in %s", r, fn))
							}
						}
					}
				case *ssa.Store:
					if isT(x.Addr.Type()) && !isFreshBase(x.Addr) {
						writers[fn] = true // *p = v
					}
				case *ssa.MakeClosure:
					g, _ := x.Fn.(*ssa.Function)
					if g == nil {
						break
					}
					if g.Parent() != nil {
						edges[g] = append(edges[g], fn)
						// a closure that is only called / deferred where it is made does not escape
						if x.Referrers() != nil {
							for _, r := range *x.Referrers() {
								if c, ok := r.(ssa.CallInstruction); ok && c.Common().Value == x {
									if _, isGo := r.(*ssa.Go); !isGo {
										continue
									}
								}
								if _, ok := r.(*ssa.DebugRef); ok {
									continue
								}
								valueUsed[g] = "closure made in " + fn.String() + " leaves it"
							}
						}
					} else if g.Synthetic != "" {
						// bound method value: exec.applyTx
						for _, b2 := range g.Blocks {
							for _, i2 := range b2.Instrs {
								if c, ok := i2.(ssa.CallInstruction); ok {
									if h := c.Common().StaticCallee(); h != nil {
										valueUsed[h] = "method value taken in " + fn.String()
									}
								}
							}
						}
					}
				}
				if c, ok := ins.(ssa.CallInstruction); ok {
					cc := c.Common()
					if cc.IsInvoke() {
						invoked[cc.Method.Name()] = true
					} else if _, isGo := ins.(*ssa.Go); !isGo {
						for _, g := range staticCallees(cc) {
							edges[g] = append(edges[g], fn)
						}
					}
					for _, a := range cc.Args {
						if g, ok := a.(*ssa.Function); ok {
							valueUsed[g] = "passed as a value in " + fn.String()
						}
					}
				} else {
					for _, op := range ins.Operands(nil) {
						if op == nil || *op == nil {
							continue
						}
						if g, ok := (*op).(*ssa.Function); ok {
							if _, isMC := ins.(*ssa.MakeClosure); !isMC {
								valueUsed[g] = "used as a value in " + fn.String()
							}
						}
					}
				}
			}
		}
	}
	if len(escapes) > 0 {
		return fail("%s", strings.Join(escapes, "; "))
	}
	// ancestors of the writers over static call edges
	work := []*ssa.Function{}
	for w := range writers {
		ck.blocked[w] = true
		ck.writers = append(ck.writers, funcKey(w))
		work = append(work, w)
	}
	sort.Strings(ck.writers)
	for len(work) > 0 {
		g := work[0]
		work = work[1:]
		for _, caller := range edges[g] {
			if !ck.blocked[caller] {
				ck.blocked[caller] = true
				work = append(work, caller)
			}
		}
	}
	var esc []string
	for f := range ck.blocked {
		switch {
		case valueUsed[f] != "":
			esc = append(esc, funcKey(f)+" ("+valueUsed[f]+")")
		case f.Parent() == nil && ast.IsExported(f.Name()):
			esc = append(esc, funcKey(f)+" (exported)")
		case f.Parent() == nil && f.Signature.Recv() != nil && invoked[f.Name()]:
			esc = append(esc, funcKey(f)+" (an interface method of this name is called in the package)")
		}
	}
	if len(esc) > 0 {
		sort.Strings(esc)
		return fail("a function that can reach a store to the field can be called dynamically: %s", strings.Join(esc, "; "))
	}
	return ck
}

// spareConfined remembers the confined heap components that a call to callee (nil: a dynamic call) cannot
// change and returns the function that puts them back after the heap was havocked.
func (e *Engine) spareConfined(st *State, blockedBy func(ck *confKey) bool) func() {
	cks := e.confined()
	if len(cks) == 0 {
		return func() {}
	}
	keepH := map[string]*Term{}
	keepV := map[string]int{}
	for _, ck := range cks {
		if ck.open {
			e.note(fmt.Sprintf("confined %s: not applied (%s)", ck.item, ck.why))
			continue
		}
		if blockedBy(ck) {
			continue
		}
		e.note(fmt.Sprintf("confined %s: stores only in %s; kept across calls that cannot reach them (assumes no unsafe/reflect store, no whole-struct assignment from a package not loaded, one thread)", ck.item, strings.Join(ck.writers, ", ")))
		for _, k := range ck.keys {
			keepH[k] = st.heapGet(k, ck.sorts[k])
			if id, ok := st.hv[k]; ok {
				keepV[k] = id
			}
		}
	}
	return func() {
		for k, v := range keepH {
			st.heap[k] = v
		}
		for k, v := range keepV {
			st.hv[k] = v
		}
	}
}

func (e *Engine) spareForCallee(st *State, callee *ssa.Function) func() {
	return e.spareConfined(st, func(ck *confKey) bool { return callee != nil && ck.blocked[callee] })
}

func (e *Engine) spareForWrites(st *State, ws *writeSet) func() {
	return e.spareConfined(st, func(ck *confKey) bool {
		for _, k := range ck.keys {
			if ws.keys[k] {
				return true
			}
		}
		for f := range ws.callees {
			if ck.blocked[f] {
				return true
			}
		}
		return false
	})
}
