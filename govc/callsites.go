package main

import (
	"fmt"
	"sort"
	"strings"

	"golang.org/x/tools/go/ssa"
	"golang.org/x/tools/go/ssa/ssautil"
)

// callSiteObligations decides the `callsites` rules of a property by enumeration: every function (and closure) of
// the repo packages loaded for the run is scanned for call, go and defer instructions whose callee - a static
// function or method, or an invoked interface method - has the rule's name; each such site must stand in one of the
// functions the rule lists. A value of function type that is called later is not followed (method values such as
// `f := acc.AddBalance` would escape the rule; the scan also reports those as violations when it sees the name
// being taken as a method value).
func (e *Engine) callSiteObligations(prop string) []*Obligation {
	var out []*Obligation
	for _, r := range e.db.CallSites {
		if r.Prop != prop {
			continue
		}
		allowed := map[string]bool{}
		for _, k := range r.Only {
			allowed[k] = true
		}
		var bad []string
		sites := 0
		fns := ssautil.AllFunctions(e.w.Prog)
		var keys []*ssa.Function
		for fn := range fns {
			if fn.Pkg == nil || !strings.HasPrefix(fn.Pkg.Pkg.Path(), repoMod+"/") || fn.Blocks == nil {
				continue
			}
			if fn.Synthetic != "" || fn.Pkg.Pkg.Name() != r.Pkg {
				continue
			}
			keys = append(keys, fn)
		}
		sort.Slice(keys, func(i, j int) bool { return funcKey(keys[i]) < funcKey(keys[j]) })
		for _, fn := range keys {
			host := fn
			for host.Parent() != nil {
				host = host.Parent()
			}
			hk := funcKey(host)
			for _, b := range fn.Blocks {
				for _, ins := range b.Instrs {
					name := ""
					switch x := ins.(type) {
					case ssa.CallInstruction:
						cc := x.Common()
						if cc.IsInvoke() {
							name = cc.Method.Name()
						} else if sf := cc.StaticCallee(); sf != nil {
							name = sf.Name()
						}
					case *ssa.MakeClosure:
						if f, ok := x.Fn.(*ssa.Function); ok && strings.HasSuffix(f.Name(), "$bound") {
							name = strings.TrimSuffix(f.Name(), "$bound")
							if i := strings.LastIndex(name, "."); i >= 0 {
								name = name[i+1:]
							}
						}
					}
					if name != r.Name {
						continue
					}
					sites++
					if !allowed[hk] {
						bad = append(bad, fmt.Sprintf("%s (%s)", hk, e.pos(ins)))
					}
				}
			}
		}
		o := &Obligation{Kind: "surface", Fn: "callsites", Label: r.Name + ":only-in-the-listed-functions", Solver: "enumeration", Result: "unsat",
			Src: fmt.Sprintf("callsites %s in %s only %s (%d call sites found)", r.Name, r.Pkg, strings.Join(r.Only, " | "), sites), Line: r.File}
		if len(bad) > 0 {
			o.Result, o.Unsupp = "unsupported", fmt.Sprintf("%s is also called in %s", r.Name, strings.Join(bad, ", "))
		}
		if sites == 0 {
			o.Result, o.Unsupp = "unsupported", "no call site of "+r.Name+" found at all: the rule is vacuous (renamed?)"
		}
		o.Name = fmt.Sprintf("%s/%s/%s:%s", prop, o.Fn, o.Kind, o.Label)
		out = append(out, o)
	}
	return out
}
