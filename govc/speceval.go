package main

import (
	"fmt"
	"go/constant"
	"go/types"
	"golang.org/x/tools/go/ssa"
	"math/big"
	"strings"
)

// SVal is a spec-level value: a Go-typed value (T != nil) or a ghost value (G).
type SVal struct {
	V   Val
	T   types.Type
	G   string // ghost type: int, bool, Seq, Ref, map[K]V, set[K]
	Nil bool   // the literal nil
	Pkg *types.Package
}

type SpecEnv struct {
	e           *Engine
	pre, post   *State
	vars        map[string]SVal
	fr          *Frame // locals for loop invariants
	loop        *Loop
	inOld       bool
	topFr       *Frame // frame of the function under verification (posts may read its locals through local(x))
	pkg         *types.Package
	allocBefore *Term
	paramsFirst bool // ensures: parameter names mean entry values
	params      map[string]SVal
	rngCell     int    // iteration invariants of a sync.Map.Range callback: cell of the visited set
	exit        *State // sets clauses: the state at the callee's return, read through post(e)
}

func (env *SpecEnv) st() *State {
	if env.inOld {
		return env.pre
	}
	return env.post
}

func ghostSort(g string) string {
	g = strings.TrimSpace(g)
	switch g {
	case "int", "Ref":
		return SInt
	case "bool":
		return SBool
	case "Seq":
		return SSeq
	}
	if strings.HasPrefix(g, "map[") {
		k, v := splitMapType(g)
		return arrSort(ghostSort(k), ghostSort(v))
	}
	if strings.HasPrefix(g, "set[") {
		return arrSort(ghostSort(g[4:len(g)-1]), SBool)
	}
	unsupp("ghost type %q", g)
	return ""
}

func splitMapType(g string) (string, string) {
	depth := 0
	for i := 4; i < len(g); i++ {
		switch g[i] {
		case '[':
			depth++
		case ']':
			if depth == 0 {
				return g[4:i], g[i+1:]
			}
			depth--
		}
	}
	unsupp("bad ghost map type %q", g)
	return "", ""
}

func (env *SpecEnv) evalBool(x Expr) *Term {
	v := env.eval(x)
	if v.V.T == nil || v.V.T.sort != SBool {
		unsupp("spec expression %s is not boolean", x)
	}
	return v.V.T
}

func gInt(t *Term) SVal  { return SVal{V: scalar(t), G: "int"} }
func gBool(t *Term) SVal { return SVal{V: scalar(t), G: "bool"} }

func (env *SpecEnv) eval(x Expr) SVal {
	switch n := x.(type) {
	case *EInt:
		v, _ := new(big.Int).SetString(n.V, 10)
		return gInt(BigLit(v))
	case *EStr:
		return SVal{V: scalar(SeqLit(n.V)), G: "Seq"}
	case *EBool:
		return gBool(BoolLit(n.V))
	case *ENil:
		return SVal{Nil: true}
	case *EIdent:
		return env.ident(n.Name)
	case *ESel:
		return env.sel(n)
	case *EIndex:
		return env.index(n)
	case *ECall:
		return env.call(n)
	case *EUn:
		v := env.eval(n.X)
		if n.Op == "!" {
			return gBool(Not(v.V.T))
		}
		return gInt(Neg(v.V.T))
	case *ECond:
		c := env.evalBool(n.C)
		a, b := env.eval(n.A), env.eval(n.B)
		// a nil branch takes the shape of the other branch (nil []byte, nil reference, zero value)
		nilLike := func(o SVal) SVal {
			switch {
			case o.G == "Seq":
				return SVal{V: scalar(nilBytes()), G: "Seq"}
			case o.G == "Ref" || o.G == "int":
				return SVal{V: scalar(IntLit(0)), G: o.G}
			case o.T != nil:
				return SVal{V: zeroVal(o.T), T: o.T}
			}
			unsupp("nil in a conditional expression whose other branch has no usable type")
			return SVal{}
		}
		if a.Nil && b.Nil {
			return a
		}
		if a.Nil {
			a = nilLike(b)
		}
		if b.Nil {
			b = nilLike(a)
		}
		r := a
		r.V = iteVal(c, a.V, b.V)
		return r
	case *EBin:
		return env.bin(n)
	case *EQuant:
		saved := map[string]*SVal{}
		var bvs []*Term
		for _, v := range n.Vars {
			if old, ok := env.vars[v[0]]; ok {
				o := old
				saved[v[0]] = &o
			} else {
				saved[v[0]] = nil
			}
			bv := BoundVar("q_"+v[0], ghostSort(v[1]))
			bvs = append(bvs, bv)
			env.vars[v[0]] = SVal{V: scalar(bv), G: v[1]}
		}
		body := env.evalBool(n.Body)
		var trig []*Term
		for _, tx := range n.Trig {
			tv := env.eval(tx)
			if tv.V.T == nil {
				unsupp("trigger %s is not a scalar term", tx)
			}
			trig = append(trig, tv.V.T)
		}
		for k, o := range saved {
			if o == nil {
				delete(env.vars, k)
			} else {
				env.vars[k] = *o
			}
		}
		var pats []*Term
		for i, bv := range bvs {
			if bv.sort == SInt {
				var p *Term
				body, bvs[i], p = absoluteIndexForm(body, bv)
				if p != nil {
					pats = append(pats, p)
				}
			}
		}
		if len(trig) > 0 && n.Forall {
			return gBool(Forall(bvs, body, MultiPat(trig...)))
		}
		if len(pats) != len(bvs) {
			pats = nil // a pattern must cover every bound variable
		} else if len(pats) > 1 {
			pats = nil // multi-patterns are not supported by the printer; let the solver infer
		}
		if n.Forall {
			return gBool(Forall(bvs, body, pats...))
		}
		return gBool(Exists(bvs, body))
	}
	unsupp("spec expression %T", x)
	return SVal{}
}

func (env *SpecEnv) ident(name string) SVal {
	if v, ok := env.vars[name]; ok && (env.paramsFirst || env.fr == nil) {
		return v
	}
	// quantifier-bound / explicitly bound names win over locals
	if v, ok := env.vars[name]; ok && v.G != "" {
		return v
	}
	if env.fr != nil {
		if name == "#i" && env.loop != nil {
			if c, ok := env.loopIndexCell(); ok {
				return gInt(Add(env.st().cells[c].T, IntLit(1)))
			}
			unsupp("#i used in a loop without range index")
		}
		if id, ok := env.fr.named[name]; ok && !env.inOld {
			return SVal{V: env.st().cells[id], T: env.fr.namedT[name]}
		}
		if !env.inOld && env.fr.fn != nil {
			// a variable captured by this closure
			for i, fv := range env.fr.fn.FreeVars {
				if fv.Name() == name && i < len(env.fr.free) {
					b := env.fr.free[i]
					pt, isPtr := fv.Type().Underlying().(*types.Pointer)
					if !isPtr {
						break
					}
					if b.P != nil {
						return SVal{V: env.st().load(b.P), T: pt.Elem()}
					}
					if b.T != nil {
						if isBigInt(pt.Elem()) {
							return SVal{V: scalar(b.T), T: pt}
						}
						return SVal{V: env.st().load(derefPlace(b.T, pt)), T: pt.Elem()}
					}
				}
			}
		}
		if id, ok := env.fr.named["&"+name]; ok {
			// escaping local: cell holds the object reference; value is the pointee
			ref := env.st().cells[id].T
			pt := env.fr.namedT["&"+name]
			pl := derefPlace(ref, pt)
			if isBigInt(pt.(*types.Pointer).Elem()) {
				return SVal{V: scalar(ref), T: pt}
			}
			return SVal{V: env.st().load(pl), T: pt.(*types.Pointer).Elem()}
		}
	}
	if v, ok := env.vars[name]; ok {
		return v
	}
	if env.fr != nil && env.fr.fn != nil && env.fr.fn.Parent() != nil {
		// inside a closure: parameters of the function under verification (their entry values)
		if v, ok := env.e.entryParams[name]; ok {
			return v
		}
	}
	if g, ok := env.e.db.Ghosts[name]; ok {
		return SVal{V: scalar(env.st().heapGet("G:"+name, ghostSort(g.Type))), G: g.Type}
	}
	if name == "alloc" {
		return gInt(env.st().allocTerm())
	}
	// package-level object of the current package
	if env.pkg != nil {
		if o := env.pkg.Scope().Lookup(name); o != nil {
			return env.object(o)
		}
		// package qualifier
		for _, imp := range env.pkg.Imports() {
			if imp.Name() == name {
				return SVal{Pkg: imp}
			}
		}
		if env.pkg.Name() == name {
			return SVal{Pkg: env.pkg}
		}
	}
	// any loaded package by short name
	var found *types.Package
	for path, p := range env.e.w.AllTypes {
		if p.Name() == name || shortPkg(path) == name {
			if found != nil && found != p {
				// prefer the one imported by the current package (handled above); otherwise ambiguous
				unsupp("ambiguous package qualifier %q (%s, %s)", name, found.Path(), p.Path())
			}
			found = p
		}
	}
	if found != nil {
		return SVal{Pkg: found}
	}
	unsupp("unknown identifier %q in spec", name)
	return SVal{}
}

// mapIterOfLoop finds the iterator of the map range loop the invariant belongs to (its Next is in the loop header).
func (env *SpecEnv) mapIterOfLoop() *mapIter {
	if env.loop == nil || env.fr == nil {
		return nil
	}
	for _, ins := range env.loop.Header.Instrs {
		if nx, ok := ins.(*ssa.Next); ok {
			if it := env.fr.iters[nx.Iter]; it != nil && !it.isStr {
				return it
			}
		}
	}
	// a loop nested in a map range loop: visited() speaks about the innermost enclosing map range loop (the nested
	// loop does not advance that iterator, so its visited set is the same at every iteration of the nested loop)
	var best *Loop
	var bestIt *mapIter
	for _, l := range env.fr.loops {
		if l == env.loop || !l.Blocks[env.loop.Header] {
			continue
		}
		for _, ins := range l.Header.Instrs {
			if nx, ok := ins.(*ssa.Next); ok {
				if it := env.fr.iters[nx.Iter]; it != nil && !it.isStr {
					if best == nil || len(l.Blocks) < len(best.Blocks) {
						best, bestIt = l, it
					}
				}
			}
		}
	}
	return bestIt
}

func (env *SpecEnv) loopIndexCell() (int, bool) {
	return findRangeIndexCell(env.fr, env.loop)
}

func (env *SpecEnv) object(o types.Object) SVal {
	switch c := o.(type) {
	case *types.Const:
		switch kindOf(c.Type()) {
		case kInt:
			if v, ok := constant.Val(constant.ToInt(c.Val())).(*big.Int); ok {
				return SVal{V: scalar(BigLit(v)), T: c.Type()}
			}
			v, _ := constant.Int64Val(constant.ToInt(c.Val()))
			return SVal{V: scalar(IntLit(v)), T: c.Type()}
		case kBool:
			return SVal{V: scalar(BoolLit(constant.BoolVal(c.Val()))), T: c.Type()}
		case kSeq:
			return SVal{V: scalar(SeqLit(constant.StringVal(c.Val()))), T: c.Type()}
		}
	case *types.Var:
		pl := &Place{Kind: PGlobal, Name: c.Pkg().Path() + "." + c.Name(), Typ: c.Type()}
		return SVal{V: env.st().load(pl), T: c.Type()}
	}
	unsupp("spec reference to %s", o)
	return SVal{}
}

func (env *SpecEnv) sel(n *ESel) SVal {
	// result.N
	if id, ok := n.X.(*EIdent); ok && id.Name == "result" {
		if v, ok := env.vars["result."+n.Name]; ok {
			return v
		}
	}
	base := env.eval(n.X)
	if base.Pkg != nil {
		o := base.Pkg.Scope().Lookup(n.Name)
		if o == nil {
			unsupp("%s.%s not found", base.Pkg.Name(), n.Name)
		}
		return env.object(o)
	}
	if base.T == nil {
		unsupp("field selection %s on ghost value", n)
	}
	pl, ft := env.fieldPlace(base, n.Name)
	if pl == nil {
		// struct value: direct component
		return env.fieldOfValue(base, n.Name)
	}
	if isBigInt(ft) {
		unsupp("big.Int value field")
	}
	return SVal{V: env.st().load(pl), T: ft}
}

// fieldPlace resolves x.name (through embedded fields) to a heap place when x is a pointer.
func (env *SpecEnv) fieldPlace(base SVal, name string) (*Place, types.Type) {
	t := base.T
	var pkg *types.Package
	if nt := namedOf(t); nt != nil {
		pkg = nt.Obj().Pkg()
	}
	obj, index, _ := types.LookupFieldOrMethod(t, true, pkg, name)
	if obj == nil && env.pkg != nil {
		obj, index, _ = types.LookupFieldOrMethod(t, true, env.pkg, name)
	}
	fld, ok := obj.(*types.Var)
	if !ok || fld == nil {
		unsupp("no field %s in %s", name, t)
	}
	cur := base.V
	curT := t
	var pl *Place
	for _, idx := range index {
		if p, isPtr := curT.Underlying().(*types.Pointer); isPtr {
			ref := cur.T
			if pl != nil {
				ref = env.st().load(pl).T
			}
			pl = &Place{Kind: PField, Ref: ref, Typ: p.Elem(), Path: []int{idx}}
			curT = p.Elem().Underlying().(*types.Struct).Field(idx).Type()
			continue
		}
		stt, isStruct := curT.Underlying().(*types.Struct)
		if !isStruct {
			unsupp("field path through %s", curT)
		}
		if pl != nil {
			np := *pl
			np.Path = append(append([]int{}, pl.Path...), idx)
			pl = &np
		} else {
			cur = cur.Fs[idx]
		}
		curT = stt.Field(idx).Type()
	}
	return pl, curT
}

func (env *SpecEnv) fieldOfValue(base SVal, name string) SVal {
	stt, ok := base.T.Underlying().(*types.Struct)
	if !ok {
		unsupp("field %s of non-struct %s", name, base.T)
	}
	for i := 0; i < stt.NumFields(); i++ {
		if stt.Field(i).Name() == name {
			return SVal{V: base.V.Fs[i], T: stt.Field(i).Type()}
		}
	}
	unsupp("no field %s in %s", name, base.T)
	return SVal{}
}

func namedOf(t types.Type) *types.Named {
	if p, ok := t.(*types.Pointer); ok {
		t = p.Elem()
	}
	n, _ := t.(*types.Named)
	return n
}

func (env *SpecEnv) index(n *EIndex) SVal {
	base := env.eval(n.X)
	idx := env.eval(n.I)
	if base.G != "" {
		if strings.HasPrefix(base.G, "map[") {
			_, v := splitMapType(base.G)
			return SVal{V: scalar(Select(base.V.T, idx.V.T)), G: v}
		}
		if strings.HasPrefix(base.G, "set[") {
			return gBool(Select(base.V.T, idx.V.T))
		}
		unsupp("index on ghost %s", base.G)
	}
	st := env.st()
	switch u := base.T.Underlying().(type) {
	case *types.Slice:
		if kindOf(base.T) == kSeq {
			return gInt(App("seq_at", SInt, base.V.T, idx.V.T))
		}
		pl := &Place{Kind: PElem, Ref: base.V.Fs[0].T, Idx: Add(base.V.Fs[1].T, idx.V.T), Typ: u.Elem()}
		return SVal{V: st.load(pl), T: u.Elem()}
	case *types.Map:
		if _, ok := mapKeySort(u); !ok {
			unsupp("spec index on map with key %s", u.Key())
		}
		kt := idx.V.T
		if kindOf(u.Key()) == kStruct {
			kt = mapKey(u, idx.V)
		}
		has := And(Ne(base.V.T, IntLit(0)), Select(env.e.mapDom(st, u, base.V.T), kt))
		v := env.e.mapGet(st, u, base.V.T, kt)
		return SVal{V: iteVal(has, v, zeroVal(u.Elem())), T: u.Elem()}
	case *types.Basic:
		return gInt(App("seq_at", SInt, base.V.T, idx.V.T))
	}
	unsupp("spec index on %s", base.T)
	return SVal{}
}

func (env *SpecEnv) call(n *ECall) SVal {
	switch n.Fn {
	case "entry":
		// entry(e): the value e had when the loop of this invariant was entered (locals and heap)
		if env.loop == nil {
			unsupp("entry(e) outside a loop invariant")
		}
		snap := env.post.loopEntry[env.loop]
		if snap == nil {
			snap = env.post // at loop entry itself
		}
		sub := *env
		sub.post = snap
		sub.inOld = false
		return sub.eval(n.Args[0])
	case "local":
		// local(x): the value of the function's local variable x at the point the clause is evaluated (for posts: at the return)
		id, ok := n.Args[0].(*EIdent)
		lf := env.fr
		if lf == nil {
			lf = env.topFr
		}
		if !ok || lf == nil {
			unsupp("local(name) needs a local variable name and a frame")
		}
		if c, ok := lf.named[id.Name]; ok {
			if v, live := env.st().cells[c]; live {
				return SVal{V: v, T: lf.namedT[id.Name]}
			}
			unsupp("local variable %s is not live here", id.Name)
		}
		if c, ok := lf.named["&"+id.Name]; ok {
			// escaping local: the cell holds the object reference; the value is the pointee
			if v, live := env.st().cells[c]; live {
				pt := lf.namedT["&"+id.Name]
				if isBigInt(pt.(*types.Pointer).Elem()) {
					return SVal{V: scalar(v.T), T: pt}
				}
				return SVal{V: env.st().load(derefPlace(v.T, pt)), T: pt.(*types.Pointer).Elem()}
			}
		}
		// declared later on other paths: an arbitrary value of its type on this one
		for _, b := range lf.fn.Blocks {
			for _, ins := range b.Instrs {
				if a, ok := ins.(*ssa.Alloc); ok && a.Comment == id.Name {
					el := a.Type().(*types.Pointer).Elem()
					return SVal{V: env.st().freshVal("undeclared_"+id.Name, el), T: el}
				}
			}
		}
		unsupp("no local variable %s", id.Name)
	case "post":
		// in a sets clause: the value of e when the function returns (sets clauses otherwise read the entry state)
		if env.exit == nil {
			unsupp("post(e) is only meaningful in a sets clause")
		}
		sub := *env
		sub.pre, sub.post, sub.inOld, sub.exit = env.pre, env.exit, false, nil
		return sub.eval(n.Args[0])
	case "old":
		saved := env.inOld
		env.inOld = true
		savedPF := env.paramsFirst
		env.paramsFirst = true
		v := env.eval(n.Args[0])
		env.inOld = saved
		env.paramsFirst = savedPF
		return v
	case "len":
		v := env.eval(n.Args[0])
		if v.G == "Seq" {
			return gInt(seqLen(v.V.T))
		}
		switch kindOf(v.T) {
		case kSeq:
			return gInt(seqLen(v.V.T))
		case kSlice:
			return gInt(v.V.Fs[2].T)
		case kRef:
			if mt, ok := v.T.Underlying().(*types.Map); ok {
				return gInt(env.e.mapCard(env.st(), mt, v.V.T))
			}
		}
		unsupp("len of %s", v.T)
	case "cap":
		v := env.eval(n.Args[0])
		return gInt(v.V.Fs[3].T)
	case "big":
		v := env.eval(n.Args[0])
		return gInt(env.st().bigGet(v.V.T))
	case "fresh":
		v := env.eval(n.Args[0])
		ab := env.allocBefore
		if ab == nil {
			ab = env.pre.allocTerm() // loop invariants: allocated since function entry
		}
		r := v.V.T
		if r == nil && len(v.V.Fs) == 4 {
			r = v.V.Fs[0].T // slice: its backing array
		}
		return gBool(And(Ge(r, ab), Lt(r, env.post.allocTerm())))
	case "allocated":
		v := env.eval(n.Args[0])
		return gBool(And(Gt(v.V.T, IntLit(0)), Lt(v.V.T, env.pre.allocTerm())))
	case "has":
		m := env.eval(n.Args[0])
		k := env.eval(n.Args[1])
		if m.G != "" {
			return gBool(Select(m.V.T, k.V.T))
		}
		mt := m.T.Underlying().(*types.Map)
		kt := k.V.T
		if kindOf(mt.Key()) == kStruct {
			kt = mapKey(mt, k.V)
		}
		return gBool(And(Ne(m.V.T, IntLit(0)), Select(env.e.mapDom(env.st(), mt, m.V.T), kt)))
	case "update":
		m := env.eval(n.Args[0])
		k := env.eval(n.Args[1])
		v := env.eval(n.Args[2])
		return SVal{V: scalar(Store(m.V.T, k.V.T, v.V.T)), G: m.G}
	case "tag":
		v := env.eval(n.Args[0])
		return gInt(v.V.Fs[0].T)
	case "as":
		// as(r, "*pkg.T"): view a ghost reference as a typed Go pointer
		v := env.eval(n.Args[0])
		sx, ok := n.Args[1].(*EStr)
		if !ok {
			unsupp("as(x, \"*pkg.Type\")")
		}
		return SVal{V: scalar(v.V.T), T: env.typeByName(sx.V)}
	case "call":
		// call("key", args...): the value a pure external function (spec'd `pure`) returns for these arguments
		kx, ok := n.Args[0].(*EStr)
		if !ok {
			unsupp("call(\"function key\", args...)")
		}
		var ts []*Term
		for _, a := range n.Args[1:] {
			ts = append(ts, env.eval(a).V.flat()...)
		}
		srt := SInt
		fkey := kx.V
		leafPath := ""
		if i := strings.Index(fkey, "@"); i >= 0 {
			// key@leafpath[:Sort] selects one scalar component of a composite result (".1", ".0.Type#tag", ...)
			rest := fkey[i+1:]
			fkey = fkey[:i]
			if j := strings.LastIndex(rest, ":"); j >= 0 {
				leafPath, fkey = rest[:j], fkey+rest[j:]
			} else {
				leafPath = rest
			}
		}
		switch {
		case strings.HasSuffix(fkey, ":Seq"):
			srt, fkey = SSeq, strings.TrimSuffix(fkey, ":Seq")
		case strings.HasSuffix(fkey, ":Bool"):
			srt, fkey = SBool, strings.TrimSuffix(fkey, ":Bool")
		case strings.HasSuffix(fkey, ".String"):
			srt = SSeq
		}
		return SVal{V: scalar(App("fn$"+fkey+leafPath, srt, ts...)), G: map[string]string{SInt: "Ref", SSeq: "Seq", SBool: "bool"}[srt]}
	case "u64", "i64", "i32":
		v := env.eval(n.Args[0])
		k := map[string]types.BasicKind{"u64": types.Uint64, "i64": types.Int64, "i32": types.Int32}[n.Fn]
		return SVal{V: v.V, T: types.Typ[k]}
	case "str":
		v := env.eval(n.Args[0])
		return SVal{V: v.V, T: types.Typ[types.String]}
	case "sprintf":
		// the term fmt.Sprintf(format, args...) evaluates to in the code (uninterpreted function of format and boxed arguments)
		f := env.eval(n.Args[0])
		parts := []*Term{f.V.T}
		for _, a := range n.Args[1:] {
			v := env.eval(a)
			t := v.T
			if t == nil {
				switch v.G {
				case "Seq":
					t = types.Typ[types.String]
				default:
					unsupp("sprintf argument %s needs a Go type: wrap it in u64()/i64()/i32()/str()", a)
				}
			}
			switch kindOf(t) {
			case kSeq:
				parts = append(parts, IntLit(typeID(t)), App("box_seq", SInt, v.V.T))
			case kInt:
				parts = append(parts, IntLit(typeID(t)), App("box_int", SInt, v.V.T))
			case kRef:
				parts = append(parts, IntLit(typeID(t)), v.V.T)
			default:
				unsupp("sprintf argument of type %s", t)
			}
		}
		return SVal{V: scalar(App("sprintf$"+itoa(len(parts)), SSeq, parts...)), G: "Seq"}
	case "param":
		// param(name): a parameter shadowed by a result name (e.g. a parameter called "result")
		id, ok := n.Args[0].(*EIdent)
		if !ok {
			unsupp("param(name)")
		}
		if v, ok := env.params[id.Name]; ok {
			return v
		}
		unsupp("no parameter %s", id.Name)
	case "deref":
		// deref(p): the value a pointer to a non-struct points to
		v := env.eval(n.Args[0])
		pt, ok := v.T.Underlying().(*types.Pointer)
		if !ok {
			unsupp("deref of non-pointer")
		}
		if v.V.P != nil && v.V.T == nil {
			return SVal{V: env.st().load(v.V.P), T: pt.Elem()}
		}
		return SVal{V: env.st().load(derefPlace(v.V.T, v.T)), T: pt.Elem()}
	case "ival":
		v := env.eval(n.Args[0])
		return SVal{V: scalar(v.V.Fs[1].T), G: "Ref"}
	case "isnil":
		v := env.eval(n.Args[0])
		return gBool(env.isNil(v))
	case "istype":
		v := env.eval(n.Args[0])
		s, ok := n.Args[1].(*EStr)
		if !ok {
			unsupp("istype(x, \"pkg.Type\" | \"*pkg.Type\")")
		}
		// a type name that no longer exists in the loaded packages: no value has that type (a contract clause guarded by
		// such an istype is vacuous, not unreadable - a renamed helper type must not raise an alarm by itself)
		var T types.Type
		func() {
			defer func() {
				if r := recover(); r != nil {
					if _, isU := r.(unsupported); !isU {
						panic(r)
					}
					T = nil
				}
			}()
			T = env.typeByName(s.V)
		}()
		if T == nil {
			env.e.note("contract names a type that does not exist: " + s.V + " (istype is false)")
			return gBool(BoolLit(false))
		}
		return gBool(Eq(v.V.Fs[0].T, IntLit(typeID(T))))
	case "dyn":
		// dyn(x, "*pkg.T"): payload of interface x viewed as that pointer type
		v := env.eval(n.Args[0])
		s := n.Args[1].(*EStr)
		T := env.typeByName(s.V)
		return SVal{V: env.e.unbox(env.st(), v.V.Fs[1].T, T), T: T}
	case "smhas", "smbytes", "smtag", "smhasi", "smvali":
		// smhas(obj, "field", key) / smbytes(obj, "field", key): the sync.Map in field `field` of object obj
		// (string keys; smbytes reads a []byte payload)
		o := env.eval(n.Args[0])
		fs, ok := n.Args[1].(*EStr)
		if !ok {
			unsupp("smhas(obj, \"field\", key)")
		}
		pt, isPtr := o.T.Underlying().(*types.Pointer)
		if !isPtr {
			unsupp("smhas: object must be a pointer to a struct")
		}
		stT, isSt := pt.Elem().Underlying().(*types.Struct)
		if !isSt {
			unsupp("smhas: object must be a pointer to a struct")
		}
		idx := -1
		for i := 0; i < stT.NumFields(); i++ {
			if stT.Field(i).Name() == fs.V {
				idx = i
			}
		}
		if idx < 0 {
			unsupp("smhas: no field %s", fs.V)
		}
		id := smID(o.V.T, typeKey(pt.Elem())+pathString(pt.Elem(), []int{idx}))
		kv := env.eval(n.Args[2])
		var k *Term
		if n.Fn == "smhasi" || n.Fn == "smvali" {
			k = App("box_int", SInt, kv.V.T) // integer keys (and, for smvali, an integer payload)
		} else {
			k = App("box_seq", SInt, kv.V.T)
		}
		domS, valS := smSorts()
		switch n.Fn {
		case "smhasi":
			return gBool(Select(Select(env.st().heapGet("SM:dom", domS), id), k))
		case "smvali":
			return gInt(App("unbox_int", SInt, Select(Select(env.st().heapGet("SM:val", valS), id), k)))
		case "smhas":
			return gBool(Select(Select(env.st().heapGet("SM:dom", domS), id), k))
		case "smtag":
			return gInt(Select(Select(env.st().heapGet("SM:tag", valS), id), k))
		default:
			return SVal{V: scalar(App("unbox_seq", SSeq, Select(Select(env.st().heapGet("SM:val", valS), id), k))), G: "Seq"}
		}
	case "lruhas", "lruval", "lrubytes", "lrutag":
		// lruhas(cache, key) / lruval (reference payload) / lrubytes ([]byte or string payload) / lrutag (dynamic type id):
		// the finite-map model of an lru.Cache identified by its pointer (string keys)
		lruDeclare()
		c := env.eval(n.Args[0])
		if c.V.T == nil {
			unsupp("%s: first argument must be a *lru.Cache", n.Fn)
		}
		id := lruID(c.V.T)
		kv := env.eval(n.Args[1])
		k := App("box_seq", SInt, kv.V.T)
		domS, valS := smSorts()
		switch n.Fn {
		case "lruhas":
			return gBool(Select(Select(env.st().heapGet("LRU:dom", domS), id), k))
		case "lrutag":
			return gInt(Select(Select(env.st().heapGet("LRU:tag", valS), id), k))
		case "lruval":
			return SVal{V: scalar(Select(Select(env.st().heapGet("LRU:val", valS), id), k)), G: "Ref"}
		default:
			return SVal{V: scalar(App("unbox_seq", SSeq, Select(Select(env.st().heapGet("LRU:val", valS), id), k))), G: "Seq"}
		}
	case "hasmethod":
		// hasmethod("pkg.T", "Name"): decided statically - the method set of *T holds an exported method of that name (what
		// encoding/json looks at to pick a type's own MarshalJSON over the structural encoding)
		tx, ok1 := n.Args[0].(*EStr)
		mx, ok2 := n.Args[1].(*EStr)
		if !ok1 || !ok2 {
			unsupp("hasmethod(\"pkg.T\", \"Name\")")
		}
		MT := env.typeByName(tx.V)
		ms := types.NewMethodSet(types.NewPointer(MT))
		for i := 0; i < ms.Len(); i++ {
			if ms.At(i).Obj().Name() == mx.V {
				return gBool(BoolLit(true))
			}
		}
		return gBool(BoolLit(false))
	case "implements":
		// implements(x, "pkg.Iface"): the dynamic type of interface value x implements the named interface - the test a
		// type switch / type assertion to that interface makes (uninterpreted per interface; nil implements nothing)
		v := env.eval(n.Args[0])
		sx, ok := n.Args[1].(*EStr)
		if !ok || len(v.V.Fs) != 2 {
			unsupp("implements(interface value, \"pkg.Iface\")")
		}
		T := env.typeByName(sx.V)
		it, isI := T.Underlying().(*types.Interface)
		if !isI {
			unsupp("implements: %s is not an interface", sx.V)
		}
		return gBool(And(Ne(v.V.Fs[0].T, IntLit(0)), env.e.tagImplements(v.V.Fs[0].T, it, typeKey(T))))
	case "rvisited":
		// rvisited(k): in an iteration invariant of a sync.Map.Range callback - key k has been handed to the callback
		if env.rngCell == 0 {
			unsupp("rvisited(k) needs the iteration invariant of a sync.Map.Range callback")
		}
		kv := env.eval(n.Args[0])
		return gBool(Select(env.st().cells[env.rngCell].T, App("box_seq", SInt, kv.V.T)))
	case "visited", "nvisited":
		// visited(k): the map range loop of this invariant has already handed out key k; nvisited(): how many keys so far
		mi := env.mapIterOfLoop()
		if mi == nil {
			unsupp("%s() needs the invariant of a range loop over a map", n.Fn)
		}
		if n.Fn == "nvisited" {
			return gInt(env.st().cells[mi.ncell].T)
		}
		kv := env.eval(n.Args[0])
		return gBool(Select(env.st().cells[mi.cell].T, kv.V.T))
	case "mk":
		// mk("pkg.T", f1, f2, ...): a value of struct type T with the given fields in declaration order (map keys)
		sx, ok := n.Args[0].(*EStr)
		if !ok {
			unsupp("mk(\"pkg.T\", fields...)")
		}
		T := env.typeByName(sx.V)
		stt, isSt := T.Underlying().(*types.Struct)
		if !isSt || stt.NumFields() != len(n.Args)-1 {
			unsupp("mk: %s is not a struct with %d fields", sx.V, len(n.Args)-1)
		}
		out := Val{}
		for _, a := range n.Args[1:] {
			out.Fs = append(out.Fs, env.eval(a).V)
		}
		return SVal{V: out, T: T}
	case "samearray":
		// samearray(a, b): the two slices share their backing array
		a := env.eval(n.Args[0])
		b := env.eval(n.Args[1])
		if len(a.V.Fs) != 4 || len(b.V.Fs) != 4 {
			unsupp("samearray of non-slices")
		}
		return gBool(Eq(a.V.Fs[0].T, b.V.Fs[0].T))
	case "arr2bytes":
		// a[:] of a byte array a
		v := env.eval(n.Args[0])
		return SVal{V: scalar(App("arr2bytes", SSeq, v.V.T)), G: "Seq"}
	case "s2b":
		v := env.eval(n.Args[0])
		return SVal{V: scalar(App("s2b", SSeq, v.V.T)), G: "Seq"}
	case "b2s":
		v := env.eval(n.Args[0])
		return SVal{V: scalar(App("b2s", SSeq, v.V.T)), G: "Seq"}
	case "seq_drop":
		// seq_drop(s, n): s without its first n elements
		a, b := env.eval(n.Args[0]), env.eval(n.Args[1])
		return SVal{V: scalar(App("seq_drop", SSeq, a.V.T, b.V.T)), G: "Seq"}
	case "seq_sub":
		a, b, c := env.eval(n.Args[0]), env.eval(n.Args[1]), env.eval(n.Args[2])
		return SVal{V: scalar(App("seq_sub", SSeq, a.V.T, b.V.T, c.V.T)), G: "Seq"}
	case "str_hasprefix":
		a, b := env.eval(n.Args[0]), env.eval(n.Args[1])
		return gBool(App("str_hasprefix", SBool, a.V.T, b.V.T))
	case "cat":
		a, b := env.eval(n.Args[0]), env.eval(n.Args[1])
		return SVal{V: scalar(seqCat(a.V.T, b.V.T)), G: "Seq"}
	case "mul":
		a, b := env.eval(n.Args[0]), env.eval(n.Args[1])
		return gInt(Mul(a.V.T, b.V.T))
	case "div":
		a, b := env.eval(n.Args[0]), env.eval(n.Args[1])
		return gInt(EDiv(a.V.T, b.V.T))
	case "ref":
		// ref(x): the reference term of pointer-typed x as a ghost Ref
		v := env.eval(n.Args[0])
		return SVal{V: scalar(v.V.T), G: "Ref"}
	case "unchanged":
		// unchanged(Ghost) or unchanged(x.f)
		saved := env.inOld
		env.inOld = false
		a := env.eval(n.Args[0])
		env.inOld = true
		b := env.eval(n.Args[0])
		env.inOld = saved
		return gBool(eqVal(a.V, b.V))
	}
	if gf, ok := env.e.db.Funcs[n.Fn]; ok {
		if len(gf.Params) != len(n.Args) {
			unsupp("ghost func %s: %d args expected", n.Fn, len(gf.Params))
		}
		var args []SVal
		for _, a := range n.Args {
			args = append(args, env.eval(a))
		}
		if gf.Body != nil {
			saved := map[string]*SVal{}
			for i, p := range gf.Params {
				if old, ok := env.vars[p[0]]; ok {
					o := old
					saved[p[0]] = &o
				} else {
					saved[p[0]] = nil
				}
				a := args[i]
				env.vars[p[0]] = a
			}
			savedFr := env.fr
			env.fr = nil
			r := env.eval(gf.Body)
			env.fr = savedFr
			for k, o := range saved {
				if o == nil {
					delete(env.vars, k)
				} else {
					env.vars[k] = *o
				}
			}
			return r
		}
		var ts []*Term
		for _, a := range args {
			ts = append(ts, a.V.flat()...)
		}
		return SVal{V: scalar(App("g$"+n.Fn, ghostSort(gf.Ret), ts...)), G: gf.Ret}
	}
	unsupp("unknown spec function %s", n.Fn)
	return SVal{}
}

func (env *SpecEnv) typeByName(s string) types.Type {
	// composite type expressions: *T, []T, map[K]V (for dyn/istype on decoded values)
	if strings.HasPrefix(s, "*") && (strings.HasPrefix(s[1:], "map[") || strings.HasPrefix(s[1:], "[]") || strings.HasPrefix(s[1:], "*")) {
		return types.NewPointer(env.typeByName(s[1:]))
	}
	if strings.HasPrefix(s, "[]") {
		return types.NewSlice(env.typeByName(s[2:]))
	}
	if strings.HasPrefix(s, "map[") {
		depth, i := 0, 3
		for ; i < len(s); i++ {
			if s[i] == '[' {
				depth++
			} else if s[i] == ']' {
				depth--
				if depth == 0 {
					break
				}
			}
		}
		return types.NewMap(env.typeByName(s[4:i]), env.typeByName(s[i+1:]))
	}
	ptr := strings.HasPrefix(s, "*")
	s = strings.TrimPrefix(s, "*")
	i := strings.LastIndex(s, ".")
	if i < 0 {
		// predeclared types: "uint64", "bool", "string", ...
		if o := types.Universe.Lookup(s); o != nil {
			if tn, ok := o.(*types.TypeName); ok && !ptr {
				return tn.Type()
			}
		}
		unsupp("type name %q needs a package qualifier", s)
	}
	T := env.e.lookupType(s[:i], s[i+1:], env.pkg)
	if T == nil {
		unsupp("type %q not found", s)
	}
	if ptr {
		return types.NewPointer(T)
	}
	return T
}

func (env *SpecEnv) isNil(v SVal) *Term {
	if v.G != "" {
		if v.G == "Ref" || v.G == "int" {
			return Eq(v.V.T, IntLit(0))
		}
		if v.G == "Seq" {
			return Eq(v.V.T, nilBytes()) // the nil []byte (a string-valued ghost is never equal to it by s2b's axiom only when wrapped)
		}
		unsupp("nil comparison on ghost %s", v.G)
	}
	if v.V.P != nil && v.V.T == nil && v.V.Fs == nil {
		return False() // the address of a variable or field is never nil
	}
	switch kindOf(v.T) {
	case kRef:
		return Eq(v.V.T, IntLit(0))
	case kIface:
		return Eq(v.V.Fs[0].T, IntLit(0))
	case kSlice:
		return Eq(v.V.Fs[0].T, IntLit(0))
	case kSeq:
		return Eq(v.V.T, nilBytes())
	}
	unsupp("nil comparison on %s", v.T)
	return nil
}

func (env *SpecEnv) bin(n *EBin) SVal {
	switch n.Op {
	case "&&":
		return gBool(And(env.evalBool(n.L), env.evalBool(n.R)))
	case "||":
		return gBool(Or(env.evalBool(n.L), env.evalBool(n.R)))
	case "==>":
		return gBool(Implies(env.evalBool(n.L), env.evalBool(n.R)))
	case "<==>":
		return gBool(Eq(env.evalBool(n.L), env.evalBool(n.R)))
	}
	l, r := env.eval(n.L), env.eval(n.R)
	switch n.Op {
	case "==", "!=":
		var eq *Term
		switch {
		case l.Nil && r.Nil:
			eq = True()
		case l.Nil:
			eq = env.isNil(r)
		case r.Nil:
			eq = env.isNil(l)
		default:
			fa, fb := l.V.flat(), r.V.flat()
			if len(fa) != len(fb) {
				unsupp("comparison of different shapes: %s", n)
			}
			for i := range fa {
				if fa[i].sort != fb[i].sort {
					unsupp("comparison of different sorts (%s vs %s): %s", fa[i].sort, fb[i].sort, n)
				}
			}
			eq = eqVal(l.V, r.V)
		}
		if n.Op == "!=" {
			eq = Not(eq)
		}
		return gBool(eq)
	case "<":
		return gBool(Lt(l.V.T, r.V.T))
	case "<=":
		return gBool(Le(l.V.T, r.V.T))
	case ">":
		return gBool(Gt(l.V.T, r.V.T))
	case ">=":
		return gBool(Ge(l.V.T, r.V.T))
	case "+":
		if l.V.T.sort == SSeq {
			return SVal{V: scalar(seqCat(l.V.T, r.V.T)), G: "Seq"}
		}
		return gInt(Add(l.V.T, r.V.T))
	case "-":
		return gInt(Sub(l.V.T, r.V.T))
	case "*":
		return gInt(Mul(l.V.T, r.V.T))
	case "/":
		return gInt(EDiv(l.V.T, r.V.T))
	case "%":
		return gInt(EMod(l.V.T, r.V.T))
	}
	unsupp("spec operator %s", n.Op)
	return SVal{}
}

func (v SVal) String() string { return fmt.Sprintf("%v:%v%s", v.V.T, v.T, v.G) }

// absoluteIndexForm rewrites a body in which the bound variable v only indexes arrays as (+ c v)
// (same c everywhere) into one over x = c + v, so that the quantifier's trigger is select(A, x)
// and matches any element access regardless of how its index was computed.
func absoluteIndexForm(body, v *Term) (*Term, *Term, *Term) {
	var base *Term
	var anyArr *Term
	ok := true
	seen := map[int]bool{}
	var rec func(t *Term)
	rec = func(t *Term) {
		if !ok || seen[t.id] || !t.bound {
			return
		}
		seen[t.id] = true
		if t.op == "select" && mentions(t.args[1], v) {
			idx := t.args[1]
			c := splitIndex(idx, v)
			if c == nil {
				ok = false
				return
			}
			if base == nil {
				base = c
			} else if base != c {
				ok = false
				return
			}
			if anyArr == nil && !mentions(t.args[0], v) {
				anyArr = t.args[0]
			}
			rec(t.args[0])
			return
		}
		for _, a := range t.args {
			rec(a)
		}
	}
	rec(body)
	if !ok || base == nil || anyArr == nil {
		return body, v, nil
	}
	if _, lit := base.intVal(); lit {
		return body, v, nil // already absolute
	}
	x := BoundVar(v.symName()+"_abs", SInt)
	m := map[*Term]*Term{}
	// replace index terms first (larger terms before the variable itself)
	seen2 := map[int]bool{}
	var collect func(t *Term)
	collect = func(t *Term) {
		if seen2[t.id] || !t.bound {
			return
		}
		seen2[t.id] = true
		if t.op == "select" && mentions(t.args[1], v) {
			idx := t.args[1]
			if idx.op == "+" && len(idx.args) == 2 && idx.args[0] == base {
				rest := idx.args[1]
				if rest == v {
					m[idx] = x
				} else if rest.op == "+" && rest.args[0] == v {
					m[idx] = Add(x, rest.args[1])
				}
			}
		}
		for _, a := range t.args {
			collect(a)
		}
	}
	collect(body)
	nb := Subst(body, m)
	nb = Subst(nb, map[*Term]*Term{v: Sub(x, base)})
	if mentions(nb, v) {
		return body, v, nil
	}
	return nb, x, Select(anyArr, x)
}

func mentions(t, v *Term) bool {
	if !t.bound {
		return false
	}
	seen := map[int]bool{}
	var rec func(*Term) bool
	rec = func(x *Term) bool {
		if x == v {
			return true
		}
		if !x.bound || seen[x.id] {
			return false
		}
		seen[x.id] = true
		for _, a := range x.args {
			if rec(a) {
				return true
			}
		}
		return false
	}
	return rec(t)
}

// splitIndex returns c when idx is (+ c v) or (+ c (+ v lit)) with c free of v.
func splitIndex(idx, v *Term) *Term {
	if idx.op == "+" && len(idx.args) == 2 && !mentions(idx.args[0], v) {
		rest := idx.args[1]
		if rest == v {
			return idx.args[0]
		}
		if rest.op == "+" && len(rest.args) == 2 && rest.args[0] == v {
			if _, lit := rest.args[1].intVal(); lit {
				return idx.args[0]
			}
		}
	}
	return nil
}
