package main

import (
	"bytes"
	"context"
	"fmt"
	"os"
	"os/exec"
	"path/filepath"
	"runtime"
	"strings"
	"sync"
	"sync/atomic"
	"time"
)

type solverSpec struct {
	name string
	argv func(file string, timeoutS int) []string
}

var solvers = []solverSpec{
	{"z3-new", func(f string, t int) []string { return []string{"z3-new", fmt.Sprintf("-T:%d", t), f} }},
	{"z3", func(f string, t int) []string { return []string{"z3", fmt.Sprintf("-T:%d", t), f} }},
	{"cvc5", func(f string, t int) []string {
		return []string{"cvc5", fmt.Sprintf("--tlimit=%d", t*1000), "--produce-models", f}
	}},
}

type solveResult struct {
	answer string // unsat sat unknown timeout error
	solver string
	ms     int64
	output string
}

// procSem bounds the number of solver processes running at once to the number of cores: a raced query starts three
// processes and sixteen queries are in flight, which oversubscribed the machine threefold - a query that needs 8 s of
// CPU then ran into a wall-clock timeout although nothing about it had changed. The clock of a process starts when it
// gets its slot.
var procSem = make(chan struct{}, runtime.NumCPU())

func runSolver(sp solverSpec, file string, timeoutS int) solveResult {
	procSem <- struct{}{}
	defer func() { <-procSem }()
	ctx, cancel := context.WithTimeout(context.Background(), time.Duration(timeoutS+2)*time.Second)
	defer cancel()
	argv := sp.argv(file, timeoutS)
	cmd := exec.CommandContext(ctx, argv[0], argv[1:]...)
	var out bytes.Buffer
	cmd.Stdout = &out
	cmd.Stderr = &out
	t0 := time.Now()
	_ = cmd.Run()
	ms := time.Since(t0).Milliseconds()
	txt := out.String()
	// the answer is the first line that is not a warning (z3 4.8 prints "WARNING: ... cannot be used in patterns" before
	// its answer when a state merge put an ite into an explicit trigger; it then picks its own triggers)
	first := ""
	for _, ln := range strings.Split(txt, "\n") {
		ln = strings.TrimSpace(ln)
		if ln == "" || strings.HasPrefix(ln, "WARNING:") {
			continue
		}
		first = ln
		break
	}
	ans := "error"
	switch {
	case first == "unsat":
		ans = "unsat"
	case first == "sat":
		ans = "sat"
	case first == "unknown":
		ans = "unknown"
	case strings.Contains(first, "timeout") || ctx.Err() != nil:
		ans = "timeout"
	}
	if len(txt) > 6000 {
		txt = txt[:6000] + "\n...[truncated]"
	}
	return solveResult{answer: ans, solver: sp.name, ms: ms, output: txt}
}

// solveQuery races the portfolio: z3-new first, the others if it does not decide quickly.
func solveQuery(smt string, dir, name string, timeoutS int) solveResult {
	file := filepath.Join(dir, name+".smt2")
	if err := os.WriteFile(file, []byte(smt), 0o644); err != nil {
		return solveResult{answer: "error", output: err.Error()}
	}
	quick := 2
	if timeoutS < quick {
		quick = timeoutS
	}
	r := runSolver(solvers[0], file, quick)
	if r.answer == "unsat" || r.answer == "sat" {
		return r
	}
	// race all three with the full timeout
	ch := make(chan solveResult, len(solvers))
	for _, sp := range solvers {
		go func(sp solverSpec) { ch <- runSolver(sp, file, timeoutS) }(sp)
	}
	var last solveResult = r
	var total int64 = r.ms
	for range solvers {
		x := <-ch
		total += x.ms
		if x.answer == "unsat" || x.answer == "sat" {
			x.ms = total
			return x
		}
		if x.answer != "error" || last.answer == "error" {
			last = x
		}
	}
	last.ms = total
	return last
}

// splitGoal returns the conjuncts of a goal (top-level and under a common implication).
func splitGoal(g *Term) []*Term {
	if g.op == "and" {
		var out []*Term
		for _, a := range g.args {
			out = append(out, splitGoal(a)...)
		}
		return out
	}
	if g.op == "=>" && g.args[1].op == "and" {
		var out []*Term
		for _, a := range g.args[1].args {
			for _, s := range splitGoal(a) {
				out = append(out, Implies(g.args[0], s))
			}
		}
		return out
	}
	return []*Term{g}
}

type Solver struct {
	dir      string
	timeoutS int
	axioms   []*Term
	mu       sync.Mutex
	renderMu sync.Mutex
	queries  int
	totalMs  int64
	bySolver map[string]int
	samples  []string
	// retryTimeouts: give timed-out obligations a second, sequential chance (quick and thorough checks, not mutant runs)
	retryTimeouts bool
	retried       int
}

type prepared struct {
	o     *Obligation
	texts []string
	hdrs  []string
}

// prepare renders the queries of one obligation (sequential: term construction is not thread-safe).
func (s *Solver) prepare(o *Obligation) *prepared {
	p := &prepared{o: o}
	if o.Result != "" {
		return p // decided without the solver (enumeration)
	}
	if o.Unsupp != "" {
		o.Result = "unsupported"
		return p
	}
	for _, c := range o.PC {
		if c.isFalse() {
			o.Result, o.Solver = "unsat", "trivial"
			return p
		}
	}
	if o.Goal.isTrue() {
		o.Result, o.Solver = "unsat", "trivial"
		return p
	}
	conj := splitGoal(o.Goal)
	for ci, g := range conj {
		if g.isTrue() {
			continue
		}
		q := &Query{Name: o.Name, Axioms: s.axioms, Asserts: append(append([]*Term{}, o.PC...), Not(g))}
		header := fmt.Sprintf("; obligation %s\n; kind %s  conjunct %d/%d\n; source: %s\n; goal clause: %s\n", o.Name, o.Kind, ci+1, len(conj), o.Line, o.Src)
		p.hdrs = append(p.hdrs, header)
		p.texts = append(p.texts, q.SMT(true))
	}
	if len(p.texts) == 0 {
		o.Result, o.Solver = "unsat", "trivial"
	}
	return p
}

func (s *Solver) discharge(p *prepared, idx int) {
	o := p.o
	if o.Result != "" {
		return
	}
	o.Result = "unsat"
	for ci, smt := range p.texts {
		r := solveQuery(p.hdrs[ci]+smt, s.dir, fmt.Sprintf("q%05d_%d", idx, ci), s.timeoutS)
		s.mu.Lock()
		s.queries++
		s.totalMs += r.ms
		s.bySolver[r.solver]++
		if len(s.samples) < 3 && r.answer == "unsat" && len(smt) < 6000 {
			s.samples = append(s.samples, p.hdrs[ci]+smt)
		}
		s.mu.Unlock()
		o.Ms += r.ms
		if o.Solver == "" || r.answer != "unsat" {
			o.Solver = r.solver
		}
		if r.answer != "unsat" {
			o.Result = r.answer
			o.Src = fmt.Sprintf("%s  [failing conjunct %d/%d]", o.Src, ci+1, len(p.texts))
			o.FailSMT = smt
			o.Model = "; ---- failing query ----\n" + p.hdrs[ci] + smt + "\n; ---- solver output (" + r.solver + ") ----\n" + r.output
			return
		}
	}
}

func (s *Solver) groupText(name string, members []*Obligation) string {
	var alts []*Term
	for _, o := range members {
		alts = append(alts, And(append(append([]*Term{}, o.PC...), Not(o.Goal))...))
	}
	q := &Query{Name: name, Axioms: s.axioms, Asserts: []*Term{Or(alts...)}}
	return fmt.Sprintf("; obligation %s: %d path instances as one query\n", name, len(members)) + q.SMT(false)
}

// run decides all instances. Instances of one obligation are tried as one query
// (OR_i (pc_i and not goal_i) unsat); a group that is not refuted is split in halves, down to
// single instances (which are tried conjunct by conjunct with the full timeout). After the first
// failed single instance the rest of that obligation is not run.
func (s *Solver) run(obls []*Obligation) {
	byName := map[string][]*Obligation{}
	var names []string
	for _, o := range obls {
		if o.Result != "" {
			continue
		}
		if o.Unsupp != "" || o.Goal == nil {
			o.Result = "unsupported"
			continue
		}
		if _, ok := byName[o.Name]; !ok {
			names = append(names, o.Name)
		}
		byName[o.Name] = append(byName[o.Name], o)
	}
	var wg sync.WaitGroup
	sem := make(chan struct{}, 16)
	var ctr int64
	for _, n := range names {
		wg.Add(1)
		sem <- struct{}{}
		go func(name string, all []*Obligation) {
			defer wg.Done()
			defer func() { <-sem }()
			// path instances of one obligation: chunks of 48 are tried as one grouped query first; a chunk the solvers
			// do not settle in 2 s is split in halves, and the halves (down to single instances) are solved side by
			// side - the number of solver processes is bounded by procSem, not here
			var failed int32
			var solveGroup func(g []*Obligation)
			solveGroup = func(g []*Obligation) {
				if atomic.LoadInt32(&failed) != 0 {
					for _, o := range g {
						o.Result = "not-run"
						o.Unsupp = "not run: another path instance of this obligation already failed"
					}
					return
				}
				s.mu.Lock()
				ctr++
				id := ctr
				s.mu.Unlock()
				if len(g) == 1 {
					s.renderMu.Lock()
					rp := s.prepare(g[0])
					s.renderMu.Unlock()
					s.discharge(rp, int(id))
					if g[0].Result != "unsat" {
						atomic.StoreInt32(&failed, 1)
					}
					return
				}
				s.renderMu.Lock()
				text := s.groupText(name, g)
				s.renderMu.Unlock()
				r := solveQuery(text, s.dir, fmt.Sprintf("g%06d", id), 2)
				s.mu.Lock()
				s.queries++
				s.totalMs += r.ms
				s.bySolver[r.solver]++
				s.mu.Unlock()
				if r.answer == "unsat" {
					for _, o := range g {
						o.Result, o.Solver = "unsat", r.solver+"(grouped)"
						o.Ms = r.ms / int64(len(g))
					}
					return
				}
				var parts [][]*Obligation
				if len(g) <= 6 {
					for i := range g {
						parts = append(parts, g[i:i+1])
					}
				} else {
					h := len(g) / 2
					parts = [][]*Obligation{g[:h], g[h:]}
				}
				var pw sync.WaitGroup
				for _, part := range parts {
					pw.Add(1)
					go func(part []*Obligation) {
						defer pw.Done()
						solveGroup(part)
					}(part)
				}
				pw.Wait()
			}
			for i := 0; i < len(all); i += 48 {
				j := i + 48
				if j > len(all) {
					j = len(all)
				}
				solveGroup(all[i:j])
			}
		}(n, byName[n])
	}
	wg.Wait()
	s.secondChance(names, byName)
}

// secondChance: an obligation none of whose instances was refuted with a model but one of whose instances ran out of
// time is tried again, its open instances one after the other on an otherwise quiet solver pool and with three times the
// time. A timeout on a loaded machine is no evidence of anything (a 5 s query was seen to time out at 25 s while four
// other checks were running); a `sat` or `unknown` answer is not retried. Bounded: at most 12 instances per run.
func (s *Solver) secondChance(names []string, byName map[string][]*Obligation) {
	if !s.retryTimeouts {
		return
	}
	budget := 12
	for _, n := range names {
		all := byName[n]
		timedOut, refuted := false, false
		for _, o := range all {
			if o.NoRetry {
				refuted = true
			}
			switch o.Result {
			case "timeout":
				timedOut = true
			case "sat", "unknown", "error":
				refuted = true
			}
		}
		if !timedOut || refuted {
			continue
		}
		save := s.timeoutS
		s.timeoutS = 3 * save
		for _, o := range all {
			if o.Result != "timeout" && o.Result != "not-run" {
				continue
			}
			if budget == 0 {
				break
			}
			budget--
			if i := strings.Index(o.Src, "  [failing conjunct"); i >= 0 {
				o.Src = o.Src[:i]
			}
			o.Result, o.Unsupp, o.Model, o.FailSMT, o.Solver = "", "", "", "", ""
			s.renderMu.Lock()
			rp := s.prepare(o)
			s.renderMu.Unlock()
			s.mu.Lock()
			s.retried++
			id := 900000 + s.retried
			s.mu.Unlock()
			s.discharge(rp, id)
			if o.Result != "unsat" {
				break
			}
		}
		s.timeoutS = save
	}
}

// satCheck answers whether the conjunction is satisfiable (vacuity guards).
func (s *Solver) satCheck(name string, asserts []*Term) solveResult {
	q := &Query{Name: name, Axioms: s.axioms, Asserts: asserts}
	return solveQuery("; vacuity guard "+name+"\n"+q.SMT(false), s.dir, name, s.timeoutS)
}
