package main

import (
	"encoding/json"
	"fmt"
	"os"
	"path/filepath"
	"sort"
	"strconv"
	"strings"
	"sync"
	"time"

	"golang.org/x/tools/go/ssa"
)

// verifDir is /verif; GOVC_VERIF points a development run at a scratch copy (never used by the registered commands).
var verifDir = func() string {
	if d := os.Getenv("GOVC_VERIF"); d != "" {
		return d
	}
	return "/verif"
}()

// PropConfig (from /verif/props.json) says which packages carry a property's contracts
// and which sweeps belong to it.
type PropConfig struct {
	Pkgs       []string `json:"pkgs"`
	Sweeps     []string `json:"sweeps"`
	NotDecided []string `json:"not_decided"`
	Bounded    []string `json:"bounded"`
	Assume     []string `json:"assumptions"`
}

type KnownFinding struct {
	Property   string `json:"property"`
	Obligation string `json:"obligation"` // obligation name (without path index)
	Witness    string `json:"witness"`    // spec expression over the function's entry state; "" = the whole obligation
	What       string `json:"what"`
	Status     string `json:"status"` // open | fixed:<commit>
	Replay     string `json:"replay,omitempty"`
}

type KnownFindings struct {
	Findings []KnownFinding `json:"findings"`
}

func loadKnown() *KnownFindings {
	kf := &KnownFindings{}
	b, err := os.ReadFile(filepath.Join(verifDir, "known_findings.json"))
	if err == nil {
		_ = json.Unmarshal(b, kf)
	}
	return kf
}

type oblAgg struct {
	Name      string
	Kind      string
	Fn        string
	Instances []*Obligation
	Failed    []*Obligation
	Ms        int64
	Solvers   map[string]int
	KnownOpen bool
}

type CheckResult struct {
	Prop        string
	Tier        string
	Reports     []*FuncReport
	Aggs        []*oblAgg
	Violations  []string
	Known       []string
	Extra       map[string]interface{}
	Samples     []string
	SolverMs    int64
	Queries     int
	BySolver    map[string]int
	Trusted     map[string]bool
	Unspecified map[string]bool
	Notes       map[string]bool
	Vacuity     []string
}

func timeoutFor(tier string) int {
	if tier == "thorough" {
		return 60
	}
	// quick: most queries answer in milliseconds; the margin is for a loaded machine (a query that takes 8 s alone
	// was seen to time out at 10 s while other checks were running)
	return 25
}

func runCheck(prop, tier string, overlay map[string][]byte, mutantMode bool) (*CheckResult, error) {
	var cfgs map[string]*PropConfig
	b, err := os.ReadFile(filepath.Join(verifDir, "props.json"))
	if err != nil {
		return nil, err
	}
	if err := json.Unmarshal(b, &cfgs); err != nil {
		return nil, fmt.Errorf("props.json: %v", err)
	}
	cfg := cfgs[prop]
	if cfg == nil {
		return nil, fmt.Errorf("property %s is not configured in props.json", prop)
	}
	w, err := loadWorld(cfg.Pkgs, overlay)
	if err != nil {
		return nil, err
	}
	db, err := loadSpecs(w, filepath.Join(verifDir, "trusted"), overlay)
	if err != nil {
		return nil, err
	}
	res := &CheckResult{Prop: prop, Tier: tier, Extra: map[string]interface{}{}, Trusted: map[string]bool{}, Unspecified: map[string]bool{}, Notes: map[string]bool{}, BySolver: map[string]int{}}
	e := newEngine(w, db)
	e.overlay = overlay
	known := loadKnown()
	templates := loadTemplates()

	// dispatch classes become ordinary clauses (checked under C17 / C03)
	for _, c := range db.Contracts {
		if c.Access != "" {
			if err := expandAccess(c); err != nil {
				return nil, err
			}
			if strings.Fields(c.Access)[0] != "public" && !contains(c.Props, "C17") {
				c.Props = append(c.Props, "C17")
			}
		}
	}
	// functions under contract for this property
	var keys []string
	for k, c := range db.Contracts {
		if c.Trusted {
			continue
		}
		if contains(c.Props, prop) {
			keys = append(keys, k)
		}
	}
	sort.Strings(keys)
	if only := os.Getenv("GOVC_ONLY"); only != "" {
		var ks []string
		for _, k := range keys {
			for _, o := range strings.Split(only, ",") {
				if strings.Contains(k, o) {
					ks = append(ks, k)
					break
				}
			}
		}
		keys = ks
	}
	var allObls []*Obligation
	for _, k := range keys {
		c := db.Contracts[k]
		if c.Abstract {
			res.Notes["contract of "+k+" is assumed (abstract), its body is not verified"] = true
			continue
		}
		fn := findByKey(w, k)
		if fn == nil {
			o := &Obligation{Kind: "contract", Fn: k, Label: "function-exists", Unsupp: "contract refers to a function that no longer exists: " + k, Line: fmt.Sprintf("%s:%d", c.File, c.Line)}
			o.Name = fmt.Sprintf("%s/%s/%s:%s", prop, k, o.Kind, o.Label)
			allObls = append(allObls, o)
			continue
		}
		rep := e.verifyFunc(fn, c, prop)
		res.Reports = append(res.Reports, rep)
		if t := templates[k]; t != nil && rep.Unsupported == "" {
			if pr, err := e.evalProbes(nil, t); err == nil {
				rep.Probes, rep.Template = pr, t
			} else {
				res.Notes["replay template of "+k+" unusable: "+err.Error()] = true
			}
		}
		for _, o := range rep.Obls {
			o.Name = fmt.Sprintf("%s/%s/%s:%s", prop, o.Fn, o.Kind, o.Label)
			if o.Fn != k {
				o.Name = fmt.Sprintf("%s/%s/%s:%s@%s", prop, k, o.Kind, o.Label, o.Fn)
			}
		}
		// known-finding witnesses: split the obligation
		for _, o := range rep.Obls {
			for _, kf := range known.Findings {
				if kf.Property == prop && kf.Obligation == o.Name && strings.HasPrefix(kf.Status, "open") && kf.Witness != "" {
					wt, err := e.evalWitness(fn, kf.Witness)
					if err != nil {
						return nil, fmt.Errorf("known finding witness %q: %v", kf.Witness, err)
					}
					o.Witness = wt
				}
			}
		}
		allObls = append(allObls, rep.Obls...)
		for _, u := range rep.Unspecified {
			res.Unspecified[u] = true
		}
		for _, u := range rep.UsedSpecs {
			res.Trusted[u] = true
		}
		for _, n := range rep.Notes {
			res.Notes[n] = true
		}
	}
	// call-site rules of this property (syntactic sweep over the SSA of the loaded repo packages)
	allObls = append(allObls, e.callSiteObligations(prop)...)
	// sweeps
	for _, sw := range cfg.Sweeps {
		obls, err := e.runSweep(sw, prop, res)
		if err != nil {
			return nil, err
		}
		allObls = append(allObls, obls...)
	}

	dir, err := os.MkdirTemp("", "govc-"+prop+"-")
	if err != nil {
		return nil, err
	}
	if os.Getenv("GOVC_KEEP") == "" {
		defer os.RemoveAll(dir)
	} else {
		fmt.Fprintln(os.Stderr, "[govc] keeping queries in", dir)
	}
	pkgT := w.ByPkg[repoMod+"/"+cfg.Pkgs[0]].Types
	axioms := append(builtinAxioms(), e.specAxioms(pkgT)...)
	sv := &Solver{dir: dir, timeoutS: timeoutFor(tier), axioms: axioms, bySolver: map[string]int{}, retryTimeouts: !mutantMode}

	// expand witnesses into two obligations: outside the witness must hold; inside is the known finding
	var solveList []*Obligation
	knownInst := map[*Obligation]*Obligation{}
	for _, o := range allObls {
		if o.Witness != nil && o.Unsupp == "" {
			in := *o
			in.PC = append(append([]*Term{}, o.PC...), o.Witness)
			in.Name = o.Name
			o.PC = append(append([]*Term{}, o.PC...), Not(o.Witness))
			knownInst[o] = &in
			solveList = append(solveList, &in)
		}
		solveList = append(solveList, o)
	}
	if os.Getenv("GOVC_DEBUG") != "" {
		fmt.Fprintf(os.Stderr, "[govc] %d obligation instances to solve\n", len(solveList))
	}
	for _, o := range solveList {
		for _, kf := range known.Findings {
			if kf.Property == prop && kf.Obligation == o.Name && strings.HasPrefix(kf.Status, "open") {
				o.NoRetry = true
			}
		}
	}
	sv.run(solveList)
	res.SolverMs, res.Queries, res.BySolver, res.Samples = sv.totalMs, sv.queries, sv.bySolver, sv.samples
	if sv.retried > 0 {
		res.Notes[fmt.Sprintf("%d obligation instance(s) ran out of time in the parallel pass and were decided in a second, sequential pass with three times the time", sv.retried)] = true
	}

	// vacuity guards (smoke test): "assert false" at a return must NOT be provable, i.e. the solver
	// must fail to refute the path condition. Contradictory requires / axioms / invariants show up here.
	if !mutantMode {
		type vq struct {
			rep  int
			site string
			text string
			ans  string
		}
		var vqs []*vq
		for i, rep := range res.Reports {
			if rep.Unsupported != "" {
				continue
			}
			// sample per return statement: up to 4 paths spread over the paths that end there, so that a
			// contradiction confined to one branch (e.g. only the success paths) is seen
			bySite := map[string][]int{}
			var sites []string
			for j := range rep.CoverPCs {
				sx := ""
				if j < len(rep.CoverSites) {
					sx = rep.CoverSites[j]
				}
				if _, ok := bySite[sx]; !ok {
					sites = append(sites, sx)
				}
				bySite[sx] = append(bySite[sx], j)
			}
			per := 4
			if len(sites) > 12 {
				per = 2
			}
			for _, sx := range sites {
				idxs := bySite[sx]
				step := 1
				if len(idxs) > per {
					step = len(idxs) / per
				}
				taken := 0
				for k := 0; k < len(idxs) && taken < per; k += step {
					pc := rep.CoverPCs[idxs[k]]
					q := &Query{Name: "vacuity", Axioms: sv.axioms, Asserts: pc}
					tr := ""
					if idxs[k] < len(rep.CoverTraces) {
						tr = "; path: " + strings.Join(rep.CoverTraces[idxs[k]], " ") + "\n"
					}
					vqs = append(vqs, &vq{rep: i, site: sx, text: "; vacuity guard: this must not be unsat\n; site: " + sx + "\n" + tr + q.SMT(false)})
					taken++
				}
			}
		}
		var wg sync.WaitGroup
		sem := make(chan struct{}, 16)
		for i, v := range vqs {
			wg.Add(1)
			sem <- struct{}{}
			go func(i int, v *vq) {
				defer wg.Done()
				defer func() { <-sem }()
				file := filepath.Join(dir, fmt.Sprintf("vac_%d.smt2", i))
				os.WriteFile(file, []byte(v.text), 0o644)
				v.ans = runSolver(solvers[0], file, 3).answer
			}(i, v)
		}
		wg.Wait()
		for i, rep := range res.Reports {
			if rep.Unsupported != "" {
				continue
			}
			n, refuted := 0, 0
			for _, v := range vqs {
				if v.rep == i {
					n++
					if v.ans == "unsat" {
						refuted++
					}
				}
			}
			hasFailure := false
			for _, o := range solveList {
				if o.Fn == rep.Key && o.Result != "unsat" && o.Result != "" {
					hasFailure = true
				}
			}
			if hasFailure {
				continue // a failed obligation is assumed afterwards, which may make the rest of the path contradictory
			}
			// per return statement: all sampled paths refuted = that return is unreachable under the contracts in force
			siteN, siteRef := map[string]int{}, map[string]int{}
			for _, v := range vqs {
				if v.rep == i {
					siteN[v.site]++
					if v.ans == "unsat" {
						siteRef[v.site]++
					}
				}
			}
			var deadSites []string
			for sx, k := range siteN {
				if siteRef[sx] == k && !contains(rep.DeadOK, sx) {
					if c := db.Contracts[rep.Key]; c != nil && len(c.Unreachable) > 0 && contains(c.Unreachable, sourceLine(sx)) {
						res.Notes[fmt.Sprintf("return at %s of %s is declared unreachable and is unreachable", sx, rep.Key)] = true
						continue
					}
					// the samples are contradictory: decide the statement with one query over all its paths
					var alts []*Term
					for j, pc := range rep.CoverPCs {
						if j < len(rep.CoverSites) && rep.CoverSites[j] == sx && len(alts) < 400 {
							alts = append(alts, And(pc...))
						}
					}
					if len(alts) > k {
						q := &Query{Name: "vacuity-site", Axioms: sv.axioms, Asserts: []*Term{Or(alts...)}}
						file := filepath.Join(dir, fmt.Sprintf("vacsite_%d_%d.smt2", i, len(deadSites)))
						os.WriteFile(file, []byte("; vacuity guard (all paths of one return statement): this must not be unsat\n"+q.SMT(false)), 0o644)
						if runSolver(solvers[0], file, 10).answer != "unsat" {
							continue
						}
					}
					deadSites = append(deadSites, sx)
				}
			}
			sort.Strings(deadSites)
			if n == 0 || (refuted == n && len(deadSites) == len(siteN)) {
				o := &Obligation{Name: fmt.Sprintf("%s/%s/meta:vacuity", prop, rep.Key), Kind: "meta", Fn: rep.Key, Result: "unsupported",
					Unsupp: fmt.Sprintf("vacuity guard: no return path is reachable (%d paths, %d refuted): contradictory precondition, axiom or invariant", n, refuted)}
				solveList = append(solveList, o)
			} else if len(deadSites) > 0 {
				o := &Obligation{Name: fmt.Sprintf("%s/%s/meta:vacuity-return-sites", prop, rep.Key), Kind: "meta", Fn: rep.Key, Result: "unsupported",
					Unsupp: fmt.Sprintf("vacuity guard: every sampled path to the return (or through the loop body) at %s is contradictory: the contracts in force make it unreachable (declare it `unreachable \"<source line>\"` in the contract if that is intended)", strings.Join(deadSites, ", "))}
				solveList = append(solveList, o)
			} else {
				res.Vacuity = append(res.Vacuity, fmt.Sprintf("%s: %d of %d sampled return paths not refutable (assert-false canary fails as it must)", rep.Key, n-refuted, n))
			}
		}
	}

	// aggregate
	aggs := map[string]*oblAgg{}
	var order []string
	for _, o := range solveList {
		isKnownInst := false
		for _, in := range knownInst {
			if in == o {
				isKnownInst = true
			}
		}
		if isKnownInst {
			continue
		}
		a := aggs[o.Name]
		if a == nil {
			a = &oblAgg{Name: o.Name, Kind: o.Kind, Fn: o.Fn, Solvers: map[string]int{}}
			aggs[o.Name] = a
			order = append(order, o.Name)
		}
		a.Instances = append(a.Instances, o)
		a.Ms += o.Ms
		a.Solvers[o.Solver]++
		if o.Result != "unsat" {
			if o.Result == "not-run" {
				a.Failed = append(a.Failed, o)
			} else {
				a.Failed = append([]*Obligation{o}, a.Failed...)
			}
		}
	}
	for _, n := range order {
		res.Aggs = append(res.Aggs, aggs[n])
	}
	// known findings: report, and require the in-witness instance to still fail
	reported := map[string]bool{}
	for o, in := range knownInst {
		for _, kf := range known.Findings {
			if kf.Property == prop && kf.Obligation == o.Name && strings.HasPrefix(kf.Status, "open") {
				if in.Result != "unsat" {
					if !reported[kf.What] {
						reported[kf.What] = true
						res.Known = append(res.Known, fmt.Sprintf("KNOWN-FINDING: property=%s %s [%s]", prop, kf.What, o.Name))
					}
				}
			}
		}
	}
	for _, kf := range known.Findings {
		if kf.Property == prop && strings.HasPrefix(kf.Status, "open") && kf.Witness != "" && !reported[kf.What] {
			// every witness instance discharged: finding no longer reproduces
			found := false
			for o := range knownInst {
				if o.Name == kf.Obligation {
					found = true
				}
			}
			if found {
				res.Known = append(res.Known, fmt.Sprintf("STALE-KNOWN-FINDING: property=%s %s (the witness case now discharges)", prop, kf.What))
			}
		}
	}
	// whole-obligation known findings (no witness)
	for _, a := range res.Aggs {
		for _, kf := range known.Findings {
			if kf.Property == prop && kf.Obligation == a.Name && strings.HasPrefix(kf.Status, "open") && kf.Witness == "" {
				if len(a.Failed) == 0 {
					res.Known = append(res.Known, fmt.Sprintf("STALE-KNOWN-FINDING: property=%s %s [%s] (the obligation now discharges)", prop, kf.What, a.Name))
					continue
				}
				res.Known = append(res.Known, fmt.Sprintf("KNOWN-FINDING: property=%s %s [%s]", prop, kf.What, a.Name))
				a.Failed = nil
				a.KnownOpen = true
			}
		}
	}
	sort.Strings(res.Known)
	return res, nil
}

func findByKey(w *World, key string) *ssa.Function {
	for path, sp := range w.SSA {
		short := sp.Pkg.Name()
		if strings.HasPrefix(key, short+".") {
			if fn := w.FindFunc(path, key[len(short)+1:]); fn != nil {
				return fn
			}
		}
	}
	return nil
}

func (e *Engine) evalWitness(fn *ssa.Function, src string) (t *Term, err error) {
	defer func() {
		if r := recover(); r != nil {
			if u, ok := r.(unsupported); ok {
				err = fmt.Errorf("%s", u.msg)
				return
			}
			panic(r)
		}
	}()
	ex, perr := parseExpr(src)
	if perr != nil {
		return nil, perr
	}
	env := &SpecEnv{e: e, pre: e.entry, post: e.entry, vars: e.entryParams, paramsFirst: true}
	if fn.Pkg != nil {
		env.pkg = fn.Pkg.Pkg
	}
	return env.evalBool(ex), nil
}

// ---------------------------------------------------------------------
// reporting

// tryReplay turns the solver's model of a failed obligation into a run of the real function.
func tryReplay(res *CheckResult, a *oblAgg) (bool, string, map[string]string) {
	var rep *FuncReport
	for _, r := range res.Reports {
		if r.Key == a.Fn {
			rep = r
		}
	}
	if rep == nil || rep.Template == nil {
		return false, "", nil
	}
	dir, err := os.MkdirTemp("", "govc-replay-")
	if err != nil {
		return false, err.Error(), nil
	}
	defer os.RemoveAll(dir)
	var log strings.Builder
	if len(rep.Template.Probes) == 0 {
		// scenario replay: the template needs nothing from the model
		ok, tl := runReplay(rep.Template, a.Failed[0].Label, nil, dir)
		return ok, tl, rep.Template.FixedValues
	}
	for _, o := range a.Failed {
		if o.FailSMT == "" {
			continue
		}
		smt := o.FailSMT
		if o.Result != "sat" {
			// undecided (quantifiers): look for a candidate input in the query without its quantified
			// assumptions. The candidate may be spurious; only its replay on the real code counts.
			var kept []string
			for _, l := range strings.Split(smt, "\n") {
				if strings.HasPrefix(l, "(assert") && (strings.Contains(l, "(forall ") || strings.Contains(l, "(exists ")) && !strings.HasPrefix(l, "(assert (not (") {
					continue
				}
				kept = append(kept, l)
			}
			smt = strings.Join(kept, "\n")
		}
		// try a few distinct candidate inputs: each replay that does not confirm blocks that assignment
		for attempt := 0; attempt < 3; attempt++ {
			vals, out := probeModel(smt, rep.Probes, dir)
			if vals == nil {
				log.WriteString("model probing failed: " + out + "\n")
				break
			}
			ok, tl := runReplay(rep.Template, o.Label, vals, dir)
			log.WriteString(tl)
			if ok {
				return true, log.String(), vals
			}
			if o.Result == "sat" && attempt >= 2 {
				break
			}
			// block this assignment of the (int / bool valued) probes
			var eqs []string
			for name, t := range rep.Probes {
				v, has := vals[name]
				if !has || (t.sort != SInt && t.sort != SBool) {
					continue
				}
				if strings.HasPrefix(v, "-") {
					v = "(- " + v[1:] + ")"
				}
				eqs = append(eqs, fmt.Sprintf("(= %s %s)", t.String(), v))
			}
			if len(eqs) == 0 {
				break
			}
			block := "(assert (not (and " + strings.Join(eqs, " ") + ")))\n"
			idx := strings.LastIndex(smt, "(check-sat)")
			if idx < 0 {
				break
			}
			smt = smt[:idx] + block + smt[idx:]
		}
	}
	return false, log.String(), nil
}

func writeReplay(prop string, a *oblAgg, confirmed bool, rlog string, vals map[string]string) string {
	dir := filepath.Join(verifDir, "replay")
	os.MkdirAll(dir, 0o755)
	name := strings.NewReplacer("/", "_", "(", "", ")", "", "*", "", ":", "_", " ", "_", "$", "_", "@", "_").Replace(a.Name)
	if len(name) > 150 {
		name = name[:150]
	}
	path := filepath.Join(dir, name+".json")
	type inst struct {
		Result string   `json:"result"`
		Solver string   `json:"solver"`
		Reason string   `json:"reason,omitempty"`
		Clause string   `json:"clause"`
		Where  string   `json:"contract_location"`
		Path   []string `json:"path_blocks"`
		Output string   `json:"query_and_solver_output,omitempty"`
	}
	out := struct {
		Property   string            `json:"property"`
		Obligation string            `json:"obligation"`
		Kind       string            `json:"kind"`
		Function   string            `json:"function"`
		Confirmed  bool              `json:"replay_confirmed"`
		Input      map[string]string `json:"replay_input,omitempty"`
		Log        string            `json:"replay_log,omitempty"`
		Note       string            `json:"note"`
		Instances  []inst            `json:"failed_instances"`
	}{Property: prop, Obligation: a.Name, Kind: a.Kind, Function: a.Fn, Confirmed: confirmed, Input: vals, Log: rlog,
		Note: "failed proof obligation; no concrete failing input was replayed against the real code (no-failing-input-found)"}
	if confirmed {
		out.Note = "failed proof obligation; the solver's counterexample was replayed against the real function and reproduces the violation"
	}
	for i, o := range a.Failed {
		if i >= 3 {
			break
		}
		out.Instances = append(out.Instances, inst{Result: o.Result, Solver: o.Solver, Reason: o.Unsupp, Clause: o.Src, Where: o.Line, Path: o.Trace, Output: o.Model})
	}
	b, _ := json.MarshalIndent(out, "", " ")
	os.WriteFile(path, b, 0o644)
	return path
}

func writeEvidence(res *CheckResult, wall float64, seed int, cfg *PropConfig) error {
	os.MkdirAll(filepath.Join(verifDir, "evidence"), 0o755)
	obligations, discharged, refutedKnown := 0, 0, 0
	var oblList []map[string]interface{}
	kindCount := map[string]int{}
	for _, a := range res.Aggs {
		obligations++
		kindCount[a.Kind]++
		st := "discharged"
		if a.KnownOpen {
			st = "refuted (open known finding)"
			obligations--
			refutedKnown++
		} else if len(a.Failed) > 0 {
			st = "failed:" + a.Failed[0].Result
		} else {
			discharged++
		}
		var solvers []string
		for s, n := range a.Solvers {
			solvers = append(solvers, fmt.Sprintf("%s x%d", s, n))
		}
		sort.Strings(solvers)
		oblList = append(oblList, map[string]interface{}{"name": a.Name, "kind": a.Kind, "instances": len(a.Instances), "status": st, "solver_ms": a.Ms, "solvers": strings.Join(solvers, ", ")})
	}
	var fns []map[string]interface{}
	for _, r := range res.Reports {
		fns = append(fns, map[string]interface{}{"function": r.Key, "at": r.File, "ssa_instructions": r.Instrs, "paths": r.Paths, "returns": r.Returns,
			"inlined_callees": r.Inlined, "callee_contracts_used": r.UsedSpecs, "unspecified_callees": r.Unspecified, "unsupported": r.Unsupported})
	}
	var trusted []string
	for k := range res.Trusted {
		trusted = append(trusted, "contract:"+k)
	}
	sort.Strings(trusted)
	base := []string{
		"go/types + go/ssa (x/tools v0.29.0, NaiveForm) as a faithful IR of the code that runs",
		"govc itself (VC generation, memory model of DESIGN section 2.4)",
		"SMT solvers z3 4.8.12 / z3-new 5.1.0 / cvc5 1.0.3",
		"intrinsics: math/big (exact integers), sync/atomic (no-ops), fmt.Errorf/errors.New (non-nil error), fmt.Sprintf (uninterpreted function of its arguments)",
		"intrinsics: sync.Map as a finite map per (object, field) (Load/Store/Delete exact; Range with iteration invariants runs the callback on every key once when it always returns true, and must not change the key set)",
		"intrinsics: hashicorp/golang-lru Cache as a finite map WITHOUT eviction, identified by its pointer (Add/Get/Peek/Contains/Remove/Purge/Len exact below capacity; recency order not modelled)",
		"intrinsics: range over a Go map hands out every key of the map exactly once in an arbitrary order (visited set; when the visited set equals the key set at the exit, the number of iterations is the map's length)",
	}
	trusted = append(base, trusted...)
	var unspec []string
	for k := range res.Unspecified {
		unspec = append(unspec, "unspecified:"+k)
	}
	sort.Strings(unspec)
	assumptions := []string{
		"sequential semantics: locks are no-ops; goroutine bodies run at the spawn point",
		"string/[]byte are immutable abstract sequences; floats uninterpreted; allocation never fails; termination not proved",
		"machine integers are modelled with explicit wrap-around (not as mathematical integers); big.Int is exact",
		"callees without contract and without body in /repo are default-havocked: results arbitrary, objects directly reachable from pointer/slice/map arguments arbitrary, no panic, ghost state untouched",
		"methods are verified for non-nil receivers",
	}
	assumptions = append(assumptions, cfg.Assume...)
	for n := range res.Notes {
		assumptions = append(assumptions, n)
	}
	assumptions = append(assumptions, unspec...)
	sort.Strings(assumptions[5:])
	samples := res.Samples
	if len(samples) == 0 {
		for _, a := range res.Aggs {
			samples = append(samples, a.Name)
			if len(samples) >= 3 {
				break
			}
		}
	}
	cov := map[string]interface{}{
		"obligations":              obligations,
		"discharged":               discharged,
		"checker_cmd":              fmt.Sprintf("/verif/bin/govc check %s --tier %s", res.Prop, res.Tier),
		"trusted_base":             trusted,
		"samples":                  samples,
		"functions_under_contract": fns,
		"obligation_list":          oblList,
		"obligations_by_kind":      kindCount,
		"solver_queries":           res.Queries,
		"solver_ms_total":          res.SolverMs,
		"queries_by_solver":        res.BySolver,
		"known_findings_reported":  res.Known,
		"refuted_known":            refutedKnown,
		"bounded_standins":         cfg.Bounded,
		"not_decided":              cfg.NotDecided,
		"vacuity_guards":           res.Vacuity,
	}
	for k, v := range res.Extra {
		cov[k] = v
	}
	ev := map[string]interface{}{
		"property_id": res.Prop,
		"tier":        res.Tier,
		"seed":        seed,
		"level":       "proof",
		"coverage":    cov,
		"assumptions": assumptions,
		"wall_s":      wall,
		"violations":  len(res.Violations),
	}
	b, err := json.MarshalIndent(ev, "", " ")
	if err != nil {
		return err
	}
	return os.WriteFile(filepath.Join(verifDir, "evidence", res.Prop+".json"), b, 0o644)
}

func cmdCheck(args []string) int {
	if len(args) < 1 {
		usage()
	}
	prop := args[0]
	tier := os.Getenv("VERIF_TIER")
	if tier == "" {
		tier = "quick"
	}
	verbose := false
	for i := 1; i < len(args); i++ {
		switch args[i] {
		case "--tier":
			i++
			tier = args[i]
		case "-v":
			verbose = true
		}
	}
	seed, _ := strconv.Atoi(os.Getenv("VERIF_SEED"))
	t0 := time.Now()
	res, err := runCheck(prop, tier, nil, false)
	if err != nil {
		// the tree does not load / contracts do not parse: that is a failed check, reported as such
		os.MkdirAll(filepath.Join(verifDir, "replay"), 0o755)
		p := filepath.Join(verifDir, "replay", prop+"_load_error.json")
		b, _ := json.MarshalIndent(map[string]string{"property": prop, "obligation": prop + "/meta:load", "error": err.Error()}, "", " ")
		os.WriteFile(p, b, 0o644)
		fmt.Printf("govc: %v\n", err)
		fmt.Printf("VIOLATION property=%s replay=%s obligation=%s/meta:load no-failing-input-found\n", prop, p, prop)
		return 1
	}
	var cfgs map[string]*PropConfig
	b, _ := os.ReadFile(filepath.Join(verifDir, "props.json"))
	json.Unmarshal(b, &cfgs)
	nObl, nOK := 0, 0
	for _, a := range res.Aggs {
		if a.KnownOpen {
			continue
		}
		nObl++
		if len(a.Failed) == 0 {
			nOK++
			if verbose {
				fmt.Printf("  ok   %-90s x%d %dms\n", a.Name, len(a.Instances), a.Ms)
			}
			continue
		}
		confirmed, rlog, vals := tryReplay(res, a)
		path := writeReplay(prop, a, confirmed, rlog, vals)
		f := a.Failed[0]
		why := f.Result
		if f.Unsupp != "" {
			why = f.Unsupp
		}
		fmt.Printf("  FAIL %s (%d/%d instances) %s :: %s @ %s\n", a.Name, len(a.Failed), len(a.Instances), why, f.Src, f.Line)
		suffix := " no-failing-input-found"
		if confirmed {
			suffix = ""
			fmt.Printf("  replay on the real code CONFIRMED the counterexample of %s: %v\n", a.Name, vals)
		}
		res.Violations = append(res.Violations, fmt.Sprintf("VIOLATION property=%s replay=%s obligation=%s%s", prop, path, a.Name, suffix))
	}
	if nObl == 0 {
		res.Violations = append(res.Violations, fmt.Sprintf("VIOLATION property=%s replay=%s obligation=%s/meta:obligation-count no-failing-input-found", prop, "/verif/props.json", prop))
	}
	if verbose {
		for u := range res.Unspecified {
			fmt.Println("  unspecified callee:", u)
		}
		for n := range res.Notes {
			fmt.Println("  note:", n)
		}
	}
	for _, k := range res.Known {
		fmt.Println(k)
	}
	if tier == "thorough" {
		// must-fail corpus: every seeded mutant must break one of its expected obligations
		n, bad, lines := runMutants(prop, nil, false)
		res.Extra["selftest_mutants"] = n
		res.Extra["selftest_caught"] = n - bad
		res.Extra["selftest_log"] = lines
		if bad > 0 {
			p := filepath.Join(verifDir, "replay", prop+"_selftest.json")
			os.MkdirAll(filepath.Dir(p), 0o755)
			jb, _ := json.MarshalIndent(map[string]interface{}{"property": prop, "obligation": prop + "/meta:selftest", "log": lines}, "", " ")
			os.WriteFile(p, jb, 0o644)
			for _, l := range lines {
				if strings.HasPrefix(l, "MUTANT-MISSED") || strings.HasPrefix(l, "MUTANT-ERROR") {
					fmt.Println("  " + l)
				}
			}
			res.Violations = append(res.Violations, fmt.Sprintf("VIOLATION property=%s replay=%s obligation=%s/meta:selftest no-failing-input-found", prop, p, prop))
		}
	}
	wall := time.Since(t0).Seconds()
	if err := writeEvidence(res, wall, seed, cfgs[prop]); err != nil {
		fmt.Println("govc: writing evidence:", err)
		return 2
	}
	fmt.Printf("govc %s [%s]: %d functions under contract, %d/%d obligations discharged, %d solver queries, %.1fs solver time, %.1fs wall\n",
		prop, tier, len(res.Reports), nOK, nObl, res.Queries, float64(res.SolverMs)/1000, wall)
	for _, v := range res.Violations {
		fmt.Println(v)
	}
	if len(res.Violations) > 0 {
		return 1
	}
	return 0
}

func (e *Engine) runSweep(name, prop string, res *CheckResult) ([]*Obligation, error) {
	switch name {
	case "surface":
		return e.surfaceSweep(prop, res)
	}
	return nil, fmt.Errorf("unknown sweep %q", name)
}

// sourceLine returns the trimmed text of a "path:line" position under /repo.
func sourceLine(pos string) string {
	pos = strings.TrimPrefix(pos, "loop body at ")
	i := strings.LastIndex(pos, ":")
	if i < 0 {
		return ""
	}
	n, err := strconv.Atoi(pos[i+1:])
	if err != nil {
		return ""
	}
	b, err := os.ReadFile(filepath.Join(repoDir(), pos[:i]))
	if err != nil {
		return ""
	}
	lines := strings.Split(string(b), "\n")
	if n < 1 || n > len(lines) {
		return ""
	}
	return strings.TrimSpace(lines[n-1])
}
