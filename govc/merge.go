package main

import "sort"

// valsMergeable: same shape, no places / closures unless identical.
func valsMergeable(a, b Val) bool {
	if (a.P != nil) || (b.P != nil) {
		if a.P == nil || b.P == nil {
			return false
		}
		pa, pb := a.P, b.P
		if pa.Kind != pb.Kind || pa.Cell != pb.Cell || pa.Ref != pb.Ref || pa.Idx != pb.Idx || pa.Name != pb.Name || len(pa.Path) != len(pb.Path) {
			return false
		}
		for i := range pa.Path {
			if pa.Path[i] != pb.Path[i] {
				return false
			}
		}
		return true
	}
	if a.Clo != nil || b.Clo != nil {
		if a.Clo == nil || b.Clo == nil || a.Clo.Fn != b.Clo.Fn || len(a.Clo.Bindings) != len(b.Clo.Bindings) {
			return false
		}
		for i := range a.Clo.Bindings {
			if !valsMergeable(a.Clo.Bindings[i], b.Clo.Bindings[i]) {
				return false
			}
		}
		return a.T == b.T
	}
	if (a.Fs == nil) != (b.Fs == nil) || len(a.Fs) != len(b.Fs) {
		return false
	}
	if a.Fs == nil {
		if (a.T == nil) != (b.T == nil) {
			return false
		}
		return a.T == nil || a.T.sort == b.T.sort
	}
	for i := range a.Fs {
		if !valsMergeable(a.Fs[i], b.Fs[i]) {
			return false
		}
	}
	return true
}

func mergeVal(c *Term, a, b Val) Val {
	if a.P != nil || a.Clo != nil {
		return a
	}
	if a.Fs == nil {
		if a.T == nil {
			return a
		}
		return Val{T: Ite(c, a.T, b.T)}
	}
	out := Val{Fs: make([]Val, len(a.Fs))}
	for i := range a.Fs {
		out.Fs[i] = mergeVal(c, a.Fs[i], b.Fs[i])
	}
	return out
}

// mergeTwo merges state b into a (a is modified). cond is the extra path condition of a.
// Returns false when the states cannot be merged.
func mergeTwo(a, b *State, ra, rb Val) (*State, Val, bool) {
	if a.epoch != b.epoch || a.allocB != b.allocB {
		return nil, Val{}, false
	}
	// common prefix of the path conditions
	n := 0
	for n < len(a.pc) && n < len(b.pc) && a.pc[n] == b.pc[n] {
		n++
	}
	ea, eb := And(a.pc[n:]...), And(b.pc[n:]...)
	if ea.isTrue() || eb.isTrue() {
		return nil, Val{}, false
	}
	if !valsMergeable(ra, rb) {
		return nil, Val{}, false
	}
	// cells
	for id, va := range a.cells {
		if vb, ok := b.cells[id]; ok {
			if !valsMergeable(va, vb) {
				return nil, Val{}, false
			}
		}
	}
	// heap: union of keys, materialised on both sides
	keys := map[string]bool{}
	for k := range a.heap {
		keys[k] = true
	}
	for k := range b.heap {
		keys[k] = true
	}
	for k := range a.hv {
		keys[k] = true
	}
	for k := range b.hv {
		keys[k] = true
	}
	var ks []string
	for k := range keys {
		ks = append(ks, k)
	}
	sort.Strings(ks)
	for _, k := range ks {
		if _, known := heapSorts[k]; !known {
			if a.hv[k] != b.hv[k] {
				return nil, Val{}, false
			}
		}
	}
	m := a.clone()
	m.pc = append([]*Term{}, a.pc[:n]...)
	m.pcSet = nil
	m.assume(Or(ea, eb))
	// facts of both sides stay valid under their own condition
	for _, k := range ks {
		srt, known := heapSorts[k]
		if !known {
			continue
		}
		ta, tb := a.heapGet(k, srt), b.heapGet(k, srt)
		if ta == tb {
			m.heap[k] = ta
		} else {
			m.heap[k] = Ite(ea, ta, tb)
		}
	}
	for id, va := range a.cells {
		if vb, ok := b.cells[id]; ok {
			m.cells[id] = mergeVal(ea, va, vb)
		} else {
			m.cells[id] = va
		}
	}
	for id, vb := range b.cells {
		if _, ok := a.cells[id]; !ok {
			m.cells[id] = vb
		}
	}
	if b.allocN > m.allocN {
		m.allocN = b.allocN
	}
	for id := range b.seen {
		m.seen[id] = true
	}
	m.trace = append(append([]string{}, a.trace...), "(merged)")
	// the conditional facts of each side
	for _, t := range a.pc[n:] {
		m.assume(Implies(ea, t))
	}
	for _, t := range b.pc[n:] {
		m.assume(Implies(eb, t))
	}
	// exactly the two cases: when ea does not hold we are in b
	m.assume(Or(ea, eb))
	return m, mergeVal(ea, ra, rb), true
}

// mergeOutcomes folds as many outcomes as possible into single states.
func mergeOutcomes(sts []*State, res []Val) ([]*State, []Val) {
	if len(sts) < 2 {
		return sts, res
	}
	outS := []*State{sts[0]}
	outR := []Val{res[0]}
	for i := 1; i < len(sts); i++ {
		merged := false
		for j := range outS {
			if m, r, ok := mergeTwo(outS[j], sts[i], outR[j], res[i]); ok {
				outS[j], outR[j] = m, r
				merged = true
				break
			}
		}
		if !merged {
			outS = append(outS, sts[i])
			outR = append(outR, res[i])
		}
	}
	return outS, outR
}
