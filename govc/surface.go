package main

import (
	"fmt"
	"go/types"
	"sort"
	"strings"

	"golang.org/x/tools/go/ssa"
)

// The reflective dispatch surface (DESIGN 3.7).
//
// InvokeBVM calls, by name, any method in the reflect method set of a registered contract that
// passes boltvm.dispatchable: exactly one result of type *boltvm.Response, and not a method of
// the boltvm.Stub interface with the identical signature (i.e. promoted from the embedded Stub).
// The sweep enumerates that set from go/types for every contract type constructed in
// registerBoltContracts and requires, for each method an external account can reach:
//   surface:declared:<T>.<M>     the method is declared in /repo on T itself (not promoted from an embedded type)
//   surface:classified:<T>.<M>   its contract carries an `access` clause
// and then verifies the access clause on the method body (symbolic execution):
//   access public                any account, effects allowed
//   access public-read           no effectful stub operation on any path
//   access guarded <perms>       effects only after a successful permission check whose permission list is
//                                within <perms> (self, admin, specific) and whose subject is CurrentCaller()
//   access internal <Const>      fails without effect unless CurrentCaller() is the given contract

type surfaceMethod struct {
	T        *types.Named
	Name     string
	Fn       *types.Func
	Promoted bool
	From     string
	Callable bool
	Dispatch bool
}

func isParseArgsType(t types.Type) bool {
	switch u := t.Underlying().(type) {
	case *types.Basic:
		switch u.Kind() {
		case types.Float64, types.Int32, types.Int64, types.Uint64, types.String, types.Bool:
			// named types (type X string) are not assignable from reflect.ValueOf(string): only the exact basic type works
			_, named := t.(*types.Named)
			return !named
		}
	case *types.Slice:
		if b, ok := u.Elem().(*types.Basic); ok && b.Kind() == types.Uint8 {
			_, named := t.(*types.Named)
			return !named
		}
	case *types.Interface:
		return u.NumMethods() == 0
	}
	return false
}

// contractTypes finds the contract types handed to boltvm.Register in registerBoltContracts.
func (e *Engine) contractTypes() ([]*types.Named, error) {
	fn := findByKey(e.w, "executor.(*BlockExecutor).registerBoltContracts")
	if fn == nil {
		return nil, fmt.Errorf("registerBoltContracts not found (surface sweep needs internal/executor loaded)")
	}
	seen := map[string]*types.Named{}
	for _, b := range fn.Blocks {
		for _, ins := range b.Instrs {
			mi, ok := ins.(*ssa.MakeInterface)
			if !ok {
				continue
			}
			it, ok := mi.Type().(*types.Named)
			if !ok || it.Obj().Name() != "Contract" {
				continue
			}
			pt, ok := mi.X.Type().(*types.Pointer)
			if !ok {
				continue
			}
			if n, ok := pt.Elem().(*types.Named); ok {
				seen[n.Obj().Name()] = n
			}
		}
	}
	var out []*types.Named
	for _, n := range seen {
		out = append(out, n)
	}
	sort.Slice(out, func(i, j int) bool { return out[i].Obj().Name() < out[j].Obj().Name() })
	if len(out) == 0 {
		return nil, fmt.Errorf("no contract types found in registerBoltContracts")
	}
	return out, nil
}

func (e *Engine) stubInterface() *types.Interface {
	for path, p := range e.w.AllTypes {
		if strings.HasSuffix(path, "bitxhub-core/boltvm") {
			if o := p.Scope().Lookup("Stub"); o != nil {
				if it, ok := o.Type().Underlying().(*types.Interface); ok {
					return it
				}
			}
		}
	}
	return nil
}

func (e *Engine) enumerateSurface() ([]*surfaceMethod, error) {
	cts, err := e.contractTypes()
	if err != nil {
		return nil, err
	}
	stub := e.stubInterface()
	if stub == nil {
		return nil, fmt.Errorf("boltvm.Stub interface not found")
	}
	var out []*surfaceMethod
	for _, T := range cts {
		ms := types.NewMethodSet(types.NewPointer(T))
		for i := 0; i < ms.Len(); i++ {
			sel := ms.At(i)
			f := sel.Obj().(*types.Func)
			if !f.Exported() {
				continue
			}
			sig := f.Type().(*types.Signature)
			m := &surfaceMethod{T: T, Name: f.Name(), Fn: f, Promoted: len(sel.Index()) > 1}
			if m.Promoted {
				// name the embedded field it comes from
				st := T.Underlying().(*types.Struct)
				m.From = st.Field(sel.Index()[0]).Name()
			}
			m.Callable = true
			np := sig.Params().Len()
			for j := 0; j < np; j++ {
				pt := sig.Params().At(j).Type()
				if sig.Variadic() && j == np-1 {
					continue // may be called with the variadic part empty
				}
				if !isParseArgsType(pt) {
					m.Callable = false
				}
			}
			// boltvm.dispatchable
			m.Dispatch = false
			if sig.Results().Len() == 1 {
				if pt, ok := sig.Results().At(0).Type().(*types.Pointer); ok {
					if n, ok := pt.Elem().(*types.Named); ok && n.Obj().Name() == "Response" && strings.HasSuffix(n.Obj().Pkg().Path(), "bitxhub-core/boltvm") {
						m.Dispatch = true
					}
				}
			}
			if m.Dispatch {
				for k := 0; k < stub.NumMethods(); k++ {
					sm := stub.Method(k)
					if sm.Name() == f.Name() {
						a := sm.Type().(*types.Signature)
						if types.Identical(types.NewSignatureType(nil, nil, nil, a.Params(), a.Results(), a.Variadic()),
							types.NewSignatureType(nil, nil, nil, sig.Params(), sig.Results(), sig.Variadic())) {
							m.Dispatch = false
						}
					}
				}
			}
			out = append(out, m)
		}
	}
	return out, nil
}

// accessClauses expands an `access` class into requires / ensures clauses on the contract.
func expandAccess(c *Contract) error {
	f := strings.Fields(c.Access)
	if len(f) == 0 {
		return nil
	}
	mk := func(label, src string) (*Clause, error) {
		ex, err := parseExpr(src)
		if err != nil {
			return nil, fmt.Errorf("access clause of %s: %v in %q", c.Key, err, src)
		}
		return &Clause{Label: label, Src: src, E: ex, Line: fmt.Sprintf("%s:%d (access %s)", c.File, c.Line, c.Access), Props: []string{"C17", "C03"}}, nil
	}
	add := func(req bool, label, src string) error {
		cl, err := mk(label, src)
		if err != nil {
			return err
		}
		if req {
			c.Requires = append(c.Requires, cl)
		} else {
			c.Ensures = append(c.Ensures, cl)
		}
		return nil
	}
	res := "result"
	switch f[0] {
	case "public":
		return add(true, "", "AccPublic")
	case "public-read":
		return add(true, "", "!AccPublic && !Guarded")
	case "guarded":
		allowed := map[string]bool{}
		for _, p := range f[1:] {
			allowed[p] = true
		}
		b := func(x bool) string {
			if x {
				return "true"
			}
			return "false"
		}
		return add(true, "", fmt.Sprintf("!AccPublic && !Guarded && AllowSelf == %s && AllowAdmin == %s && AllowSpecific == %s",
			b(allowed["self"]), b(allowed["admin"]), b(allowed["specific"])))
	case "internal":
		if len(f) < 2 {
			return fmt.Errorf("access internal <constant> on %s", c.Key)
		}
		if err := add(true, "", "!AccPublic && !Guarded && !AllowSelf && !AllowAdmin && !AllowSpecific"); err != nil {
			return err
		}
		var alts []string
		for _, k := range f[1:] {
			alts = append(alts, "CurCaller != contractAddr(constant."+k+")")
		}
		return add(false, "access-internal-only", strings.Join(alts, " && ")+" ==> "+res+" != nil && !"+res+".Ok && Eff == old(Eff)")
	}
	return fmt.Errorf("unknown access class %q on %s", c.Access, c.Key)
}

// surfaceSweep produces the enumeration obligations; the access clauses themselves are verified as ordinary contracts.
func (e *Engine) surfaceSweep(prop string, res *CheckResult) ([]*Obligation, error) {
	ms, err := e.enumerateSurface()
	if err != nil {
		return nil, err
	}
	var obls []*Obligation
	counts := map[string]int{}
	var sample []string
	for _, m := range ms {
		tn := m.T.Obj().Name()
		switch {
		case !m.Callable:
			counts["uncallable (a parameter type parseArgs cannot produce)"]++
			continue
		case !m.Dispatch:
			counts["refused by boltvm.dispatchable (not the contract ABI, or a Stub method)"]++
			continue
		}
		counts["dispatchable"]++
		name := fmt.Sprintf("%s.%s", tn, m.Name)
		o := &Obligation{Kind: "surface", Fn: "contracts.(*" + tn + ")." + m.Name, Label: "declared:" + name, Solver: "enumeration", Result: "unsat",
			Src: "a dispatchable method must be declared on the contract type itself"}
		if m.Promoted {
			o.Result, o.Unsupp = "unsupported", fmt.Sprintf("method %s is promoted from the embedded field %s and can be invoked by any account", name, m.From)
		}
		o.Name = fmt.Sprintf("%s/%s/%s:%s", prop, o.Fn, o.Kind, o.Label)
		obls = append(obls, o)
		if m.Promoted {
			continue
		}
		key := "contracts.(*" + tn + ")." + m.Name
		c := e.db.Contracts[key]
		o2 := &Obligation{Kind: "surface", Fn: key, Label: "classified:" + name, Solver: "enumeration", Result: "unsat",
			Src: "every dispatchable method carries an access class"}
		if c == nil || c.Access == "" {
			o2.Result, o2.Unsupp = "unsupported", fmt.Sprintf("dispatchable method %s has no `access` clause in verif_contracts.go", name)
		} else {
			counts["access "+strings.Fields(c.Access)[0]]++
			if len(sample) < 6 {
				sample = append(sample, name+": access "+c.Access)
			}
		}
		o2.Name = fmt.Sprintf("%s/%s/%s:%s", prop, o2.Fn, o2.Kind, o2.Label)
		obls = append(obls, o2)
	}
	res.Extra["surface_methods_total"] = len(ms)
	res.Extra["surface_counts"] = counts
	res.Extra["surface_samples"] = sample
	return obls, nil
}
